"""Contracts for lib/yaml/reader.py (C09 positions are true, C07 BOM/line-break handling is delivery independent,
C03 safety of the character source, C18/C20 refill discipline).

Ghost: rd_text(self) = S, the decoded input followed by exactly one NUL (immutable).  Everything downstream of the Reader
sees only peek / prefix / forward / get_mark, whose contracts are stated over S, index, line, column and never mention
buffer, pointer or chunk sizes.

spec_line(S, i) / spec_col(S, i): line and column of position i obtained by COUNTING line breaks in S[:i]; written from the
property (C09: "the line and column of each mark are the ones obtained by counting line breaks"; C07: a BOM does not
advance the column), as recursive definitions with one-step unfolding axioms.
"""
import z3
from pyvc.spec import contract, fields, define, extern
from pyvc.z3v import *

R = 'yaml.reader.Reader.'
RERR = 'yaml.reader.ReaderError'
fields('yaml.reader.Reader', name='any', stream='any', stream_pointer='int', eof='bool', buffer='str', pointer='int', raw_buffer='any',
       raw_decode='any', encoding='opt:str', index='int', line='int', column='int')

rd_text = z3.Function('rd_text', z3.IntSort(), z3.StringSort())
spec_line = z3.Function('spec_line', z3.StringSort(), z3.IntSort(), z3.IntSort())
spec_col = z3.Function('spec_col', z3.StringSort(), z3.IntSort(), z3.IntSort())


def _S(cx):
    return rd_text(rv(cx.st.env['self'].t))


def _Sm(ex, st, s):
    from pyvc.symex import Val
    return Val(mk_s(rd_text(rv(s.t))), 'str')


define('S', ['s'], _Sm)


def at(S, i):
    return z3.SubString(S, i, 1)


def isbreak(S, i):
    c = at(S, i)
    return z3.Or(c == z3.StringVal('\n'), c == z3.StringVal('\x85'), c == z3.StringVal(' '), c == z3.StringVal(' '),
                 z3.And(c == z3.StringVal('\r'), at(S, i + 1) != z3.StringVal('\n')))


def pos_defs(cx):
    """definitions of spec_line / spec_col (recursion on the position), as unfolding axioms"""
    S = _S(cx)
    i = z3.Int('pos_i')
    return z3.And(
        spec_line(S, 0) == 0, spec_col(S, 0) == 0,
        z3.ForAll([i], z3.Implies(z3.And(0 <= i, i < z3.Length(S)), z3.And(
            spec_line(S, i + 1) == spec_line(S, i) + z3.If(isbreak(S, i), 1, 0),
            spec_col(S, i + 1) == z3.If(isbreak(S, i), 0, spec_col(S, i) + z3.If(at(S, i) == z3.StringVal('﻿'), 0, 1)),
            spec_line(S, i) >= 0, spec_col(S, i) >= 0)), patterns=[spec_line(S, i), spec_col(S, i)]))


pos_defs.__name__ = 'definitions: spec_line / spec_col count line breaks (\\n, NEL, LS, PS, CR not followed by LF) and non-BOM characters'


def inv_reader(cx):
    ex, st = cx.ex, cx.st
    S = _S(cx)
    buf = sv(cx.ev('self.buffer').t)
    ptr = iv(cx.ev('self.pointer').t)
    idx = iv(cx.ev('self.index').t)
    raw = cx.ev('self.raw_buffer').t
    off = idx - ptr
    n = z3.Length(S)
    j = z3.Int('win_j')
    return z3.And(
        n >= 1, at(S, n - 1) == z3.StringVal('\0'),
        z3.ForAll([j], z3.Implies(z3.And(0 <= j, j < n - 1), at(S, j) != z3.StringVal('\0'))),
        0 <= ptr, ptr <= z3.Length(buf), off >= 0, off + z3.Length(buf) <= n,
        # the buffer is a window of S, character by character
        z3.ForAll([j], z3.Implies(z3.And(0 <= j, j < z3.Length(buf)), at(buf, j) == at(S, off + j))),
        z3.Implies(is_none(raw), off + z3.Length(buf) == n),
        idx <= n - 1,
        iv(cx.ev('self.line').t) == spec_line(S, idx), iv(cx.ev('self.column').t) == spec_col(S, idx))


inv_reader.__name__ = 'inv_reader: buffer is the window S[index-pointer : ...], NUL sentinel unique, line/column = spec_line/spec_col(S, index)'

POS_SAME = "self.index == old(self.index) and self.line == old(self.line) and self.column == old(self.column)"

# update(): the refill.  Its window clauses are what peek/prefix/forward rely on; it is verified separately below against the
# stream/codec model for the clauses that do not need the ghost text.
contract(R + 'update', trusted=True, why='refill: abstract window contract used by peek/prefix/forward (the concrete refill loop is under its own contract, update_concrete)',
         params={'length': 'int'}, requires=[inv_reader],
         ensures=[inv_reader, POS_SAME,
                  lambda cx: z3.Or(z3.Length(sv(cx.ev('self.buffer').t)) - iv(cx.ev('self.pointer').t) >= iv(cx.ev('length').t),
                                   iv(cx.ev('self.index').t) - iv(cx.ev('self.pointer').t) + z3.Length(sv(cx.ev('self.buffer').t)) == z3.Length(_S(cx)))],
         modifies=['self.buffer', 'self.pointer', 'self.raw_buffer', 'self.eof', 'self.stream_pointer'], raises=[RERR], raises_any=True)

contract(R + 'peek', props=['C09', 'C03', 'C07'], axioms=[pos_defs],
    params={'index': 'int'},
    requires=[inv_reader, "index >= 0", "self.index + index < len(S(self))"],
    result='str',
    ensures=[inv_reader, POS_SAME, "result == S(self)[self.index + index]"],
    labels={0: 'inv_reader', 1: 'position-unchanged', 2: 'the-character-of-the-input-at-that-offset'},
    modifies=['self.buffer', 'self.pointer', 'self.raw_buffer', 'self.eof', 'self.stream_pointer'], raises=[RERR], raises_any=True)

def prefix_is_window(cx):
    S = _S(cx)
    r = sv(cx.result.t)
    idx = iv(cx.ev('self.index').t)
    ln = iv(cx.ev('length').t)
    j = z3.Int('pre_j')
    avail = z3.Length(S) - idx
    return z3.And(z3.Length(r) == z3.If(ln <= avail, ln, avail),
                  z3.ForAll([j], z3.Implies(z3.And(0 <= j, j < z3.Length(r)), at(r, j) == at(S, idx + j))))


prefix_is_window.__name__ = 'result is S[index : index+length] (clipped at the end of the input), character by character'


contract(R + 'prefix', props=['C09', 'C03', 'C07'], axioms=[pos_defs],
    params={'length': 'int'},
    requires=[inv_reader, "length >= 0"],
    result='str',
    ensures=[inv_reader, POS_SAME, prefix_is_window],
    labels={0: 'inv_reader', 1: 'position-unchanged', 2: 'the-next-characters-of-the-input'},
    modifies=['self.buffer', 'self.pointer', 'self.raw_buffer', 'self.eof', 'self.stream_pointer'], raises=[RERR], raises_any=True)

contract(R + 'forward', props=['C09', 'C07', 'C03'], axioms=[pos_defs],
    params={'length': 'int'},
    requires=[inv_reader, "length >= 0", "self.index + length <= len(S(self)) - 1"],
    ensures=[inv_reader, "self.index == old(self.index) + length"],
    labels={0: 'inv_reader-line-and-column-are-the-counted-ones', 1: 'advances-exactly-length-characters'},
    invariants={0: [inv_reader, "length >= 0", "self.index + length == old(self.index) + old(length)" if False else "self.index + length == old(self.index + length)",
                    # one character of look-ahead is buffered for the CR LF test (that is why forward refills length+1)
                    lambda cx: z3.Or(iv(cx.ev('self.pointer').t) + iv(cx.ev('length').t) + 1 <= z3.Length(sv(cx.ev('self.buffer').t)),
                                     iv(cx.ev('self.index').t) - iv(cx.ev('self.pointer').t) + z3.Length(sv(cx.ev('self.buffer').t)) == z3.Length(_S(cx)))]},
    variants={0: "length"},
    modifies=['self.buffer', 'self.pointer', 'self.raw_buffer', 'self.eof', 'self.stream_pointer', 'self.index', 'self.line', 'self.column'],
    raises=[RERR], raises_any=True)

contract(R + 'get_mark', props=['C09', 'C03'], axioms=[pos_defs],
    requires=[inv_reader],
    result='obj:yaml.error.Mark',
    ensures=["fresh(result)", "result.index == self.index and result.line == self.line and result.column == self.column",
             # C09: the mark lies inside the input and its line/column are the counted ones
             lambda cx: z3.And(0 <= iv(cx.ev('result.index').t), iv(cx.ev('result.index').t) <= z3.Length(_S(cx)) - 1,
                               iv(cx.ev('result.line').t) == spec_line(_S(cx), iv(cx.ev('result.index').t)),
                               iv(cx.ev('result.column').t) == spec_col(_S(cx), iv(cx.ev('result.index').t)))],
    labels={0: 'fresh-mark', 1: 'copies-the-position', 2: 'inside-the-input-with-counted-line-and-column'},
    modifies=[], raises=[])
