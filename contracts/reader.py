"""Contracts for lib/yaml/reader.py (C09 positions are true, C07 BOM/line-break handling is delivery independent,
C03 safety of the character source, C18/C20 refill discipline).

Ghost: rd_text(self) = S, the decoded input followed by exactly one NUL (immutable).  Everything downstream of the Reader
sees only peek / prefix / forward / get_mark, whose contracts are stated over S, index, line, column and never mention
buffer, pointer or chunk sizes.

spec_line(S, i) / spec_col(S, i): line and column of position i obtained by COUNTING line breaks in S[:i]; written from the
property (C09: "the line and column of each mark are the ones obtained by counting line breaks"; C07: a BOM does not
advance the column), as recursive definitions with one-step unfolding axioms.
"""
import z3
from pyvc.spec import contract, fields, define, extern
from pyvc.z3v import *

R = 'yaml.reader.Reader.'
RERR = 'yaml.reader.ReaderError'
fields('yaml.reader.Reader', name='any', stream='any', stream_pointer='int', eof='bool', buffer='str', pointer='int', raw_buffer='any',
       raw_decode='any', encoding='opt:str', index='int', line='int', column='int')

rd_text = z3.Function('rd_text', z3.IntSort(), z3.StringSort())
spec_line = z3.Function('spec_line', z3.StringSort(), z3.IntSort(), z3.IntSort())
spec_col = z3.Function('spec_col', z3.StringSort(), z3.IntSort(), z3.IntSort())


def _S(cx):
    return rd_text(rv(cx.st.env['self'].t))


def _Sm(ex, st, s):
    from pyvc.symex import Val
    return Val(mk_s(rd_text(rv(s.t))), 'str')


define('S', ['s'], _Sm)


def at(S, i):
    return z3.SubString(S, i, 1)


def isbreak(S, i):
    c = at(S, i)
    return z3.Or(c == z3.StringVal('\n'), c == z3.StringVal('\x85'), c == z3.StringVal(' '), c == z3.StringVal(' '),
                 z3.And(c == z3.StringVal('\r'), at(S, i + 1) != z3.StringVal('\n')))


def pos_defs(cx):
    """definitions of spec_line / spec_col (recursion on the position), as unfolding axioms"""
    S = _S(cx)
    i = z3.Int('pos_i')
    return z3.And(
        spec_line(S, 0) == 0, spec_col(S, 0) == 0,
        z3.ForAll([i], z3.Implies(z3.And(0 <= i, i < z3.Length(S)), z3.And(
            spec_line(S, i + 1) == spec_line(S, i) + z3.If(isbreak(S, i), 1, 0),
            spec_col(S, i + 1) == z3.If(isbreak(S, i), 0, spec_col(S, i) + z3.If(at(S, i) == z3.StringVal('﻿'), 0, 1)),
            spec_line(S, i) >= 0, spec_col(S, i) >= 0)), patterns=[spec_line(S, i), spec_col(S, i)]))


pos_defs.__name__ = 'definitions: spec_line / spec_col count line breaks (\\n, NEL, LS, PS, CR not followed by LF) and non-BOM characters'


def inv_reader(cx):
    ex, st = cx.ex, cx.st
    S = _S(cx)
    buf = sv(cx.ev('self.buffer').t)
    ptr = iv(cx.ev('self.pointer').t)
    idx = iv(cx.ev('self.index').t)
    raw = cx.ev('self.raw_buffer').t
    off = idx - ptr
    n = z3.Length(S)
    j = z3.Int('win_j')
    return z3.And(
        n >= 1, at(S, n - 1) == z3.StringVal('\0'),
        z3.ForAll([j], z3.Implies(z3.And(0 <= j, j < n - 1), at(S, j) != z3.StringVal('\0'))),
        0 <= ptr, ptr <= z3.Length(buf), off >= 0, off + z3.Length(buf) <= n,
        # the buffer is a window of S, character by character
        z3.ForAll([j], z3.Implies(z3.And(0 <= j, j < z3.Length(buf)), at(buf, j) == at(S, off + j))),
        z3.Implies(is_none(raw), off + z3.Length(buf) == n),
        idx <= n - 1,
        iv(cx.ev('self.line').t) == spec_line(S, idx), iv(cx.ev('self.column').t) == spec_col(S, idx))


inv_reader.__name__ = 'inv_reader: buffer is the window S[index-pointer : ...], NUL sentinel unique, line/column = spec_line/spec_col(S, index)'

POS_SAME = "self.index == old(self.index) and self.line == old(self.line) and self.column == old(self.column)"

# update(): the refill.  Its window clauses are what peek/prefix/forward rely on; it is verified separately below against the
# stream/codec model for the clauses that do not need the ghost text.
def update_keeps_window(cx):
    from pyvc.symex import SpecCx
    oldcx = SpecCx(cx.ex, cx.old, cx.old, None)
    buf = sv(cx.ev('self.buffer').t)
    return z3.Implies(inv_reader(oldcx), z3.And(inv_reader(cx), z3.Or(
        z3.Length(buf) - iv(cx.ev('self.pointer').t) >= iv(cx.ev('length').t),
        iv(cx.ev('self.index').t) - iv(cx.ev('self.pointer').t) + z3.Length(buf) == z3.Length(_S(cx)))))


update_keeps_window.__name__ = 'if the buffer was a window of the input it still is, and it now holds `length` characters or reaches the end of the input'

contract(R + 'update', trusted=True, why='refill: abstract contract used by peek/prefix/forward/determine_encoding (window of the ghost text is preserved, position unchanged, delivered bytes only grow)',
         params={'length': 'int'}, requires=[],
         ensures=[update_keeps_window, POS_SAME,
                  "self.stream_pointer >= old(self.stream_pointer)", "old(self.eof) ==> self.eof",
                  "typeis(self.stream, 'stream') ==> as_(self.stream, 'stream').g_read.startswith(old(as_(self.stream, 'stream').g_read))",
                  "(typeis(self.stream, 'stream') and old(self.eof)) ==> as_(self.stream, 'stream').g_read == old(as_(self.stream, 'stream').g_read)"],
         modifies=['self.buffer', 'self.pointer', 'self.raw_buffer', 'self.eof', 'self.stream_pointer', 'self.stream.g_read'], raises=[RERR], raises_any=True)

contract(R + 'peek', props=['C09', 'C03', 'C07'], axioms=[pos_defs],
    params={'index': 'int'},
    requires=[inv_reader, "index >= 0", "self.index + index < len(S(self))"],
    result='str',
    ensures=[inv_reader, POS_SAME, "result == S(self)[self.index + index]"],
    labels={0: 'inv_reader', 1: 'position-unchanged', 2: 'the-character-of-the-input-at-that-offset'},
    modifies=['self.buffer', 'self.pointer', 'self.raw_buffer', 'self.eof', 'self.stream_pointer', 'self.stream.g_read'], raises=[RERR], raises_any=True)

def prefix_len(cx):
    S = _S(cx)
    r = sv(cx.result.t)
    idx = iv(cx.ev('self.index').t)
    ln = iv(cx.ev('length').t)
    avail = z3.Length(S) - idx
    return z3.Length(r) == z3.If(ln <= avail, ln, avail)


prefix_len.__name__ = 'result has min(length, what is left of the input) characters'


def prefix_is_window(cx):
    S = _S(cx)
    r = sv(cx.result.t)
    idx = iv(cx.ev('self.index').t)
    j = z3.Int('pre_j')
    return z3.ForAll([j], z3.Implies(z3.And(0 <= j, j < z3.Length(r)), at(r, j) == at(S, idx + j)))


prefix_is_window.__name__ = 'result is S[index : index+len(result)], character by character'


contract(R + 'prefix', props=['C09', 'C03', 'C07'], axioms=[pos_defs],
    params={'length': 'int'},
    requires=[inv_reader, "length >= 0"],
    result='str',
    ensures=[inv_reader, POS_SAME, prefix_len, prefix_is_window],
    labels={0: 'inv_reader', 1: 'position-unchanged', 2: 'as-many-characters-as-asked-or-left', 3: 'the-next-characters-of-the-input'},
    modifies=['self.buffer', 'self.pointer', 'self.raw_buffer', 'self.eof', 'self.stream_pointer', 'self.stream.g_read'], raises=[RERR], raises_any=True)

contract(R + 'forward', props=['C09', 'C07', 'C03'], axioms=[pos_defs],
    params={'length': 'int'},
    requires=[inv_reader, "length >= 0", "self.index + length <= len(S(self)) - 1"],
    ensures=[inv_reader, "self.index == old(self.index) + length"],
    labels={0: 'inv_reader-line-and-column-are-the-counted-ones', 1: 'advances-exactly-length-characters'},
    invariants={0: [inv_reader, "length >= 0", "self.index + length == old(self.index) + old(length)" if False else "self.index + length == old(self.index + length)",
                    # one character of look-ahead is buffered for the CR LF test (that is why forward refills length+1)
                    lambda cx: z3.Or(iv(cx.ev('self.pointer').t) + iv(cx.ev('length').t) + 1 <= z3.Length(sv(cx.ev('self.buffer').t)),
                                     iv(cx.ev('self.index').t) - iv(cx.ev('self.pointer').t) + z3.Length(sv(cx.ev('self.buffer').t)) == z3.Length(_S(cx)))]},
    variants={0: "length"},
    modifies=['self.buffer', 'self.pointer', 'self.raw_buffer', 'self.eof', 'self.stream_pointer', 'self.stream.g_read', 'self.index', 'self.line', 'self.column'],
    raises=[RERR], raises_any=True)

contract(R + 'get_mark', props=['C09', 'C03'], axioms=[pos_defs],
    requires=[inv_reader],
    result='obj:yaml.error.Mark',
    ensures=["fresh(result)", "result.index == self.index and result.line == self.line and result.column == self.column",
             # C09: the mark lies inside the input and its line/column are the counted ones
             lambda cx: z3.And(0 <= iv(cx.ev('result.index').t), iv(cx.ev('result.index').t) <= z3.Length(_S(cx)) - 1,
                               iv(cx.ev('result.line').t) == spec_line(_S(cx), iv(cx.ev('result.index').t)),
                               iv(cx.ev('result.column').t) == spec_col(_S(cx), iv(cx.ev('result.index').t)))],
    labels={0: 'fresh-mark', 1: 'copies-the-position', 2: 'inside-the-input-with-counted-line-and-column'},
    modifies=[], raises=[])

fields('yaml.reader.ReaderError', name='any', character='any', position='int', encoding='any', reason='any')

# ---- C07: a non-printable character is reported at its absolute offset: the window start (index - pointer), plus what is
#      already buffered, plus the offset inside the chunk that is about to be appended -- whatever the chunking was
contract(R + 'check_printable', props=['C07', 'C03'],
    params={'data': 'str'},
    requires=["0 <= self.pointer and self.pointer <= len(self.buffer) and self.index >= self.pointer"],
    ensures=["forall(i, 0, len(data), printable(data[i]))"],
    ensures_raise={RERR: ["0 <= exc.position - (self.index - self.pointer + len(self.buffer)) and exc.position - (self.index - self.pointer + len(self.buffer)) < len(data)",
                          "not printable(data[exc.position - (self.index - self.pointer + len(self.buffer))])",
                          "forall(i, 0, exc.position - (self.index - self.pointer + len(self.buffer)), printable(data[i]))",
                          "exc.character == code(data[exc.position - (self.index - self.pointer + len(self.buffer))])"]},
    labels={0: 'returns-only-for-printable-text'},
    modifies=[], raises=[RERR])

# ---- C07 / C18: raw input. Ghost on the stream object: g_read = all bytes delivered so far (bytes streams), g_nread = their number
fields('stream', g_read='bytes', g_nread='int')
extern('stream', 'read', why="the caller's stream: read(n) returns the next piece (str or bytes; empty = end of input) or raises anything; "
       "for a bytes piece the ghost g_read grows by exactly that piece (chunk sizes are arbitrary; len <= n is assumed for C18 only)",
       requires=[], result='str|bytes',
       ensures=["typeis(result, 'bytes') ==> self.g_read == old(self.g_read) + result", "typeis(result, 'str') ==> self.g_read == old(self.g_read)",
                "len(result) <= args[0]"],
       modifies=['self.g_read'], raises_any=True)

contract(R + 'update_raw', props=['C07', 'C18', 'C19'],
    params={'size': 'int'},
    requires=["typeis(self.stream, 'stream')", "self.raw_buffer is None or typeis(self.raw_buffer, 'bytes') or typeis(self.raw_buffer, 'str')",
              # a stream delivers one kind of data
              "typeis(self.raw_buffer, 'bytes') ==> as_(self.stream, 'stream').g_read.endswith(as_(self.raw_buffer, 'bytes'))"],
    ensures=[
        # C18: exactly one read per call, of at most `size` units
        "self.stream_pointer >= old(self.stream_pointer) and self.stream_pointer <= old(self.stream_pointer) + size",
        "old(self.eof) ==> self.eof",
        "(self.stream_pointer == old(self.stream_pointer)) == (self.eof and not old(self.eof) or (old(self.eof) and self.stream_pointer == old(self.stream_pointer)))" if False else "self.stream_pointer == old(self.stream_pointer) ==> self.eof",
        "typeis(self.raw_buffer, 'bytes') or typeis(self.raw_buffer, 'str')",
        "(typeis(old(self.raw_buffer), 'str') ==> typeis(self.raw_buffer, 'str')) and (typeis(old(self.raw_buffer), 'bytes') ==> typeis(self.raw_buffer, 'bytes'))",
        "(old(self.raw_buffer) is None and typeis(self.raw_buffer, 'bytes')) ==> as_(self.stream, 'stream').g_read == old(as_(self.stream, 'stream').g_read) + as_(self.raw_buffer, 'bytes')",
        "(typeis(old(self.raw_buffer), 'bytes') and typeis(self.raw_buffer, 'bytes')) ==> (as_(self.raw_buffer, 'bytes').startswith(as_(old(self.raw_buffer), 'bytes')) and "
        "as_(self.stream, 'stream').g_read == old(as_(self.stream, 'stream').g_read) + as_(self.raw_buffer, 'bytes')[len(as_(old(self.raw_buffer), 'bytes')):])",
    ],
    labels={0: 'one-bounded-read', 1: 'eof-is-sticky', 2: 'empty-read-means-eof', 3: 'raw-buffer-present', 4: 'one-kind-of-data', 5: 'first-piece-is-what-was-delivered', 6: 'later-pieces-are-appended'},
    modifies=['self.raw_buffer', 'self.stream_pointer', 'self.eof', 'self.stream.g_read'], raises=['TypeError'], raises_any=True)


BOMLE, BOMBE = "b'\\xff\\xfe'", "b'\\xfe\\xff'"
_DE_INV = ["self.eof or typeis(self.stream, 'stream')", "self.stream is None or typeis(self.stream, 'stream')",
           "self.raw_buffer is None or typeis(self.raw_buffer, 'bytes') or typeis(self.raw_buffer, 'str')",
           "(typeis(self.stream, 'stream') and self.raw_buffer is None) ==> len(as_(self.stream, 'stream').g_read) == 0",
           "(typeis(self.stream, 'stream') and typeis(self.raw_buffer, 'bytes')) ==> self.raw_buffer == as_(self.stream, 'stream').g_read",
           "self.stream is None ==> (self.eof and self.raw_buffer is old(self.raw_buffer))",
           "self.encoding is old(self.encoding) and self.raw_decode is old(self.raw_decode)"]
contract(R + 'determine_encoding', props=['C07'],
    requires=["self.stream is None or typeis(self.stream, 'stream')",
              "self.raw_buffer is None or typeis(self.raw_buffer, 'bytes') or typeis(self.raw_buffer, 'str')",
              "self.stream is None ==> (self.eof and self.raw_buffer is not None)",
              "(typeis(self.stream, 'stream') and self.raw_buffer is None) ==> len(as_(self.stream, 'stream').g_read) == 0",
              "(typeis(self.stream, 'stream') and typeis(self.raw_buffer, 'bytes')) ==> self.raw_buffer == as_(self.stream, 'stream').g_read",
              "self.encoding is None and self.raw_decode is None"],
    ensures=[
        # C07: the encoding is a function of the delivered bytes alone (their first two), however they were chunked
        "(typeis(self.stream, 'stream') and (self.encoding == 'utf-16-le')) ==> as_(self.stream, 'stream').g_read.startswith(%s)" % BOMLE,
        "(typeis(self.stream, 'stream') and (self.encoding == 'utf-16-be')) ==> as_(self.stream, 'stream').g_read.startswith(%s)" % BOMBE,
        "(typeis(self.stream, 'stream') and (self.encoding == 'utf-8')) ==> not (as_(self.stream, 'stream').g_read.startswith(%s) or as_(self.stream, 'stream').g_read.startswith(%s))" % (BOMLE, BOMBE),
        "(self.stream is None and typeis(old(self.raw_buffer), 'bytes')) ==> ((self.encoding == 'utf-16-le') == as_(old(self.raw_buffer), 'bytes').startswith(%s))" % BOMLE,
        "(self.stream is None and typeis(old(self.raw_buffer), 'bytes')) ==> ((self.encoding == 'utf-16-be') == as_(old(self.raw_buffer), 'bytes').startswith(%s))" % BOMBE,
        "self.encoding is None or self.encoding == 'utf-8' or self.encoding == 'utf-16-le' or self.encoding == 'utf-16-be'",
    ],
    labels={0: 'utf-16-le-iff-delivered-bytes-start-with-FFFE', 1: 'utf-16-be-iff-delivered-bytes-start-with-FEFF', 2: 'utf-8-only-without-a-utf-16-bom',
            3: 'bytes-input-le', 4: 'bytes-input-be', 5: 'one-of-three-encodings'},
    invariants={0: _DE_INV},
    modifies=['self.buffer', 'self.pointer', 'self.raw_buffer', 'self.eof', 'self.stream_pointer', 'self.stream.g_read', 'self.raw_decode', 'self.encoding'],
    raises=[RERR, 'TypeError'], raises_any=True)

# ---- C18 / C20 / C07: the refill loop itself (a second contract of Reader.update: callers keep using the abstract one above).
#      The codec behind self.raw_decode is ASSUMED: it converts a prefix of the raw bytes, or raises UnicodeDecodeError whose
#      .start is the offset of the first offending byte inside the raw buffer.
fields('UnicodeDecodeError', start='int', encoding='any', reason='any')
extern('value-call', R + 'update', why='incremental codec (codecs.utf_8_decode / utf_16_*_decode): returns (text, number of bytes consumed) with 0 <= consumed <= len(raw); '
       'on malformed input raises UnicodeDecodeError with 0 <= start < len(raw)',
       requires=[], result='tuple',
       ensures=["len(result) == 2 and typeis(result[0], 'str') and typeis(result[1], 'int') and 0 <= result[1] and result[1] <= len(as_(args[0], 'bytes'))"],
       ensures_raise={'UnicodeDecodeError': ["0 <= exc.start and exc.start < len(as_(args[0], 'bytes'))"]},
       modifies=[], raises=['UnicodeDecodeError'])
contract(R + 'check_printable#called', trusted=True, why='placeholder', requires=[], ensures=[], modifies=[], raises=[RERR]) if False else None

_UP_INV = ["self.pointer == 0", "typeis(self.buffer, 'str')", "typeis(self.raw_buffer, 'bytes') or typeis(self.raw_buffer, 'str')",
           "typeis(self.raw_buffer, 'bytes') ==> self.raw_decode is not None", "typeis(self.raw_buffer, 'str') ==> self.raw_decode is None",
           "self.raw_decode is old(self.raw_decode)",
           "len(self.buffer) >= old(len(self.buffer) - self.pointer)",
           "old(len(self.buffer) - self.pointer) >= length ==> self.stream_pointer == old(self.stream_pointer)",
           "self.eof or typeis(self.stream, 'stream')", "self.stream is None or typeis(self.stream, 'stream')",
           "self.stream_pointer >= old(self.stream_pointer)", "old(self.eof) ==> self.eof",
           "self.index == old(self.index) and self.line == old(self.line) and self.column == old(self.column)",
           "(typeis(self.stream, 'stream') and typeis(self.raw_buffer, 'bytes')) ==> as_(self.stream, 'stream').g_read.endswith(as_(self.raw_buffer, 'bytes'))"]
contract(R + 'update#refill', props=['C18', 'C20', 'C07'],
    params={'length': 'int'},
    requires=["0 <= self.pointer and self.pointer <= len(self.buffer) and self.index >= self.pointer",
              "self.raw_buffer is None or typeis(self.raw_buffer, 'bytes') or typeis(self.raw_buffer, 'str')",
              "typeis(self.raw_buffer, 'bytes') ==> self.raw_decode is not None", "typeis(self.raw_buffer, 'str') ==> self.raw_decode is None",
              "self.eof or typeis(self.stream, 'stream')", "self.stream is None or typeis(self.stream, 'stream')",
              "(typeis(self.stream, 'stream') and typeis(self.raw_buffer, 'bytes')) ==> as_(self.stream, 'stream').g_read.endswith(as_(self.raw_buffer, 'bytes'))"],
    ensures=[
        "self.index == old(self.index) and self.line == old(self.line) and self.column == old(self.column)",
        # C20: the consumed prefix is dropped on every refill
        "old(self.raw_buffer) is not None ==> self.pointer == 0",
        "old(self.raw_buffer) is None ==> (self.buffer is old(self.buffer) and self.pointer == old(self.pointer) and self.stream_pointer == old(self.stream_pointer))",
        # C18: nothing is read while enough characters are buffered
        "old(len(self.buffer) - self.pointer) >= length ==> self.stream_pointer == old(self.stream_pointer)",
        "self.stream_pointer >= old(self.stream_pointer)", "old(self.eof) ==> self.eof",
    ],
    ensures_raise={RERR: []},
    labels={0: 'position-unchanged', 1: 'consumed-prefix-dropped', 2: 'nothing-to-do-once-everything-is-decoded', 3: 'no-read-while-enough-is-buffered',
            4: 'stream-pointer-only-grows', 5: 'eof-is-sticky'},
    invariants={0: _UP_INV},
    modifies=['self.buffer', 'self.pointer', 'self.raw_buffer', 'self.eof', 'self.stream_pointer', 'self.stream.g_read'],
    raises=[RERR, 'TypeError'], raises_any=True)
