"""Contracts for lib/yaml/serializer.py and the document-level part of lib/yaml/representer.py
(C16 anchor names are a function of the document alone, C11 per-document reset, C02 alias bookkeeping)."""
import z3
from pyvc.spec import contract, fields, define, extern
from pyvc.z3v import *

S = 'yaml.serializer.Serializer.'
SERR = 'yaml.serializer.SerializerError'
fields('yaml.serializer.Serializer', use_encoding='any', use_explicit_start='any', use_explicit_end='any', use_version='any', use_tags='any',
       serialized_nodes='dict', anchors='dict', last_anchor_id='int', closed='opt:bool')
fields('yaml.representer.BaseRepresenter', default_style='any', sort_keys='any', default_flow_style='any', represented_objects='dict',
       object_keeper='list', alias_key='opt:int')

# the emitter behind self.emit(): ASSUMED frame (it writes to its own state and the stream, never to serializer/representer state)
EM_MOD = ['self.events[]', 'self.event', 'self.state', 'self.states[]', 'self.indents[]', 'self.indent', 'self.flow_level', 'self.line', 'self.column',
          'self.whitespace', 'self.indention', 'self.open_ended', 'self.tag_prefixes', 'self.prepared_anchor', 'self.prepared_tag', 'self.analysis',
          'self.style', 'self.root_context', 'self.sequence_context', 'self.mapping_context', 'self.simple_key_context', 'self.encoding', 'self.stream.g_log[]']
contract('yaml.emitter.Emitter.emit', trusted=True, why='the emitter state machine behind emit(): only its frame is used by the serializer contracts (it never touches serializer or representer fields)',
         requires=[], ensures=[], modifies=EM_MOD, raises=['yaml.emitter.EmitterError', 'UnicodeEncodeError', 'LookupError'], raises_any=True)

contract(S + '__init__', props=['C11', 'C16'],
    ensures=["len(self.serialized_nodes) == 0 and len(self.anchors) == 0 and self.last_anchor_id == 0 and self.closed is None",
             "fresh(self.serialized_nodes) and fresh(self.anchors) and self.serialized_nodes is not self.anchors"],
    labels={0: 'no-anchors-numbered-from-zero', 1: 'fresh-tables'},
    modifies=['self.use_encoding', 'self.use_explicit_start', 'self.use_explicit_end', 'self.use_version', 'self.use_tags', 'self.serialized_nodes',
              'self.anchors', 'self.last_anchor_id', 'self.closed'], raises=[])

contract(S + 'generate_anchor', props=['C16', 'C11'],
    requires=[], result='str',
    ensures=["self.last_anchor_id == old(self.last_anchor_id) + 1",
             # C16: the name is a function of the running number alone
             "result == 'id%03d' % self.last_anchor_id"],
    labels={0: 'numbers-are-consecutive', 1: 'name-is-a-function-of-the-number'},
    modifies=['self.last_anchor_id'], raises=[])

define('inv_ser', ['s'], "s.serialized_nodes is not s.anchors and heapobj(s.serialized_nodes) and heapobj(s.anchors) and s.last_anchor_id >= 0")

contract(S + 'serialize', props=['C11', 'C16'],
    requires=["typeis(node, 'obj:yaml.nodes.Node')", "inv_ser(self)"],
    ensures=[
        # C11/C16: alias numbering and the anchor table of one document are not visible in the next
        "len(self.serialized_nodes) == 0 and fresh(self.serialized_nodes)",
        "len(self.anchors) == 0 and fresh(self.anchors)",
        "self.last_anchor_id == 0", "inv_ser(self)"],
    labels={0: 'serialized-set-reset', 1: 'anchor-table-reset', 2: 'numbering-restarts', 3: 'inv_ser'},
    modifies=['self.serialized_nodes', 'self.anchors', 'self.last_anchor_id', 'self.serialized_nodes[]', 'self.anchors[]',
              'self.resolver_exact_paths[]', 'self.resolver_prefix_paths[]'] + EM_MOD,
    raises=[SERR, 'yaml.emitter.EmitterError', 'UnicodeEncodeError', 'LookupError'], raises_any=True)

contract(S + 'anchor_node', trusted=True, why='recursive walk over the node graph; only its frame is used by serialize()',
         requires=[], ensures=["self.last_anchor_id >= old(self.last_anchor_id)"], modifies=['self.anchors[]', 'self.last_anchor_id'], raises=[])
contract(S + 'serialize_node', trusted=True, why='recursive walk over the node graph; only its frame is used by serialize()',
         requires=[], ensures=[], modifies=['self.serialized_nodes[]', 'self.resolver_exact_paths[]', 'self.resolver_prefix_paths[]'] + EM_MOD,
         raises=['yaml.emitter.EmitterError', 'UnicodeEncodeError', 'LookupError'], raises_any=True)

R = 'yaml.representer.BaseRepresenter.'
contract(R + '__init__', props=['C11', 'C16'],
    ensures=["len(self.represented_objects) == 0 and len(self.object_keeper) == 0 and self.alias_key is None",
             "fresh(self.represented_objects) and fresh(self.object_keeper)"],
    labels={0: 'nothing-represented-yet', 1: 'fresh-tables'},
    modifies=['self.default_style', 'self.sort_keys', 'self.default_flow_style', 'self.represented_objects', 'self.object_keeper', 'self.alias_key'], raises=[])

contract(R + 'represent_data', trusted=True, why='type dispatch through type(data).__mro__ and user representers: only its frame is used by represent()',
         result='obj:yaml.nodes.Node', requires=[], ensures=[], modifies=['self.represented_objects[]', 'self.object_keeper[]', 'self.alias_key'], raises_any=True)

contract(R + 'represent', props=['C11', 'C16'],
    requires=["inv_ser(self)"],
    ensures=[
        # C11: object identities of one document are not visible in the next (id() values may be reused)
        "len(self.represented_objects) == 0 and fresh(self.represented_objects)",
        "len(self.object_keeper) == 0 and fresh(self.object_keeper)",
        "self.alias_key is None",
        "len(self.serialized_nodes) == 0 and len(self.anchors) == 0 and self.last_anchor_id == 0"],
    labels={0: 'represented-objects-reset', 1: 'object-keeper-reset', 2: 'alias-key-reset', 3: 'serializer-reset'},
    modifies=['self.represented_objects', 'self.object_keeper', 'self.alias_key', 'self.represented_objects[]', 'self.object_keeper[]',
              'self.serialized_nodes', 'self.anchors', 'self.last_anchor_id', 'self.serialized_nodes[]', 'self.anchors[]',
              'self.resolver_exact_paths[]', 'self.resolver_prefix_paths[]'] + EM_MOD,
    raises=[SERR, 'yaml.emitter.EmitterError', 'UnicodeEncodeError', 'LookupError'], raises_any=True)

# ---- C16 / C02: the simple safe representers: tag and text as a function of the value
SR = 'yaml.representer.SafeRepresenter.'
contract(R + 'represent_scalar', props=['C16', 'C02', 'C08'],
    params={'tag': 'str', 'value': 'str'},
    requires=["heapobj(self.represented_objects)"], result='obj:yaml.nodes.ScalarNode',
    ensures=["fresh(result) and result.tag is tag and result.value is value",
             "result.style is (self.default_style if style is None else style)",
             # C02: the node is registered under the alias key before anything else can ask for it
             "self.alias_key is not None ==> (haskey(self.represented_objects, self.alias_key) and dget(self.represented_objects, self.alias_key) is result)"],
    labels={0: 'fresh-node-with-tag-and-text', 1: 'style-default', 2: 'registered-for-aliasing'},
    modifies=['self.represented_objects[]'], raises=[])

contract(R + 'represent_mapping', trusted=True,
         why='item loop with recursive represent_data: ASSUMED here; its precondition states the C16 mechanism "sets are represented through a dict, hence sorted the same way"',
         params={'tag': 'str'}, result='obj:yaml.nodes.MappingNode',
         requires=["tag == 'tag:yaml.org,2002:set' ==> typeis(mapping, 'dict')"],
         ensures=["fresh(result) and result.tag is tag"], modifies=['self.represented_objects[]', 'self.object_keeper[]', 'self.alias_key'], raises_any=True)

contract(SR + 'represent_set', props=['C16'],
    params={'data': 'set'},
    requires=[], result='obj:yaml.nodes.MappingNode',
    ensures=["fresh(result) and result.tag == 'tag:yaml.org,2002:set'"],
    labels={0: 'set-tagged-mapping'},
    modifies=['self.represented_objects[]', 'self.object_keeper[]', 'self.alias_key'], raises=['TypeError'], raises_any=True)

contract(SR + 'represent_dict', props=['C16'], requires=[], result='obj:yaml.nodes.MappingNode',
    ensures=["fresh(result) and result.tag == 'tag:yaml.org,2002:map'"], labels={0: 'map-tagged-mapping'},
    modifies=['self.represented_objects[]', 'self.object_keeper[]', 'self.alias_key'], raises_any=True)

for _n, _tag, _txt in [('represent_none', 'null', "result.value == 'null'"), ('represent_bool', 'bool', "result.value == ('true' if data else 'false')"),
                       ('represent_int', 'int', "result.value == str(data)"), ('represent_str', 'str', "result.value is data")]:
    contract(SR + _n, props=['C16', 'C02', 'C08'],
        params={'data': {'represent_none': 'none', 'represent_bool': 'bool', 'represent_int': 'int', 'represent_str': 'str'}[_n]},
        requires=["heapobj(self.represented_objects)"], result='obj:yaml.nodes.ScalarNode',
        ensures=["fresh(result) and result.tag == 'tag:yaml.org,2002:%s'" % _tag, _txt],
        labels={0: 'tag-of-the-type', 1: 'text-of-the-value'}, modifies=['self.represented_objects[]'], raises=[])
