"""Contracts for lib/yaml/emitter.py (C15, C05, C12)."""
from pyvc.spec import contract, fields, define, extern

fields('yaml.emitter.Emitter',
       stream='any', encoding='opt:str', states='list', state='opt:func', events='list', event='any',
       indents='list', indent='opt:int', flow_level='int',
       root_context='bool', sequence_context='bool', mapping_context='bool', simple_key_context='bool',
       line='int', column='int', whitespace='bool', indention='bool', open_ended='bool',
       canonical='any', allow_unicode='any', best_indent='int', best_width='int', best_line_break='str',
       tag_prefixes='opt:dict', prepared_anchor='opt:str', prepared_tag='opt:str', analysis='any', style='opt:str')

# ---- C15: the effective formatting parameters are the documented function of the requested ones
contract('yaml.emitter.Emitter.__init__',
    props=['C15'],
    params={'indent': 'opt:int', 'width': 'opt:int', 'line_break': 'opt:str'},
    requires=[],
    ensures=[
        "self.best_indent == (indent if (indent is not None and 1 < indent and indent < 10) else 2)",
        "self.best_width == (width if (width is not None and width > 2*self.best_indent) else 80)",
        "self.best_width > 2*self.best_indent",
        "self.best_line_break == '\\r' or self.best_line_break == '\\n' or self.best_line_break == '\\r\\n'",
        "(line_break == '\\r' or line_break == '\\n' or line_break == '\\r\\n') ==> self.best_line_break == line_break",
        "2 <= self.best_indent and self.best_indent <= 9",
        "self.indent is None and self.flow_level == 0 and self.column == 0 and self.line == 0",
        "len(self.states) == 0 and len(self.events) == 0 and len(self.indents) == 0",
        "fresh(self.states) and fresh(self.events) and fresh(self.indents)",
        "self.state == func('expect_stream_start')",
        "self.open_ended == False and self.whitespace == True and self.indention == True",
        "self.canonical is canonical and self.allow_unicode is allow_unicode and self.stream is stream",
    ],
    labels={0: 'best_indent', 1: 'best_width', 2: 'width-exceeds-two-indents', 3: 'line-break-one-of-three',
            4: 'line-break-honoured', 5: 'indent-2-to-9', 6: 'initial-position', 7: 'empty-stacks',
            8: 'fresh-stacks', 9: 'initial-state', 10: 'initial-flags', 11: 'options-stored'},
    modifies=['self.' + f for f in ['stream', 'encoding', 'states', 'state', 'events', 'event', 'indents', 'indent',
              'flow_level', 'root_context', 'sequence_context', 'mapping_context', 'simple_key_context', 'line',
              'column', 'whitespace', 'indention', 'open_ended', 'canonical', 'allow_unicode', 'best_indent',
              'best_width', 'best_line_break', 'tag_prefixes', 'prepared_anchor', 'prepared_tag', 'analysis', 'style']],
    raises=[])
