"""Contracts for lib/yaml/emitter.py (C15 formatting options, C05 tag/anchor processing + error class, C12 document boundaries,
C02 block-scalar hints and style choice).

Ghost output log: the stream object carries g_log, the list of chunks handed to stream.write() so far (appended by the
assumed contract of stream.write).  "the marker '---' is written" is then a statement about that log.
"""
import z3
from pyvc.spec import contract, fields, define, extern
from pyvc.z3v import *

E = 'yaml.emitter.Emitter.'
EERR = 'yaml.emitter.EmitterError'

fields('yaml.emitter.Emitter',
       stream='stream', encoding='opt:str', states='list', state='opt:func', events='list', event='any',
       indents='list', indent='opt:int', flow_level='int',
       root_context='bool', sequence_context='bool', mapping_context='bool', simple_key_context='bool',
       line='int', column='int', whitespace='bool', indention='bool', open_ended='bool',
       canonical='any', allow_unicode='any', best_indent='int', best_width='int', best_line_break='str',
       tag_prefixes='opt:dict', prepared_anchor='opt:str', prepared_tag='opt:str', analysis='opt:obj:yaml.emitter.ScalarAnalysis', style='opt:str')
fields('yaml.emitter.ScalarAnalysis', scalar='str', empty='bool', multiline='bool', allow_flow_plain='bool', allow_block_plain='bool',
       allow_single_quoted='bool', allow_double_quoted='bool', allow_block='bool')
fields('stream', g_log='list')

# ---- the caller's stream: ASSUMED contract (anything may be raised; the chunk is appended to the ghost log)
extern('stream', 'write', why="the caller's stream: write(chunk) appends the chunk to the ghost output log or raises anything",
       requires=[], ensures=["seq(self.g_log) == old(seq(self.g_log)) + [args[0]]"], modifies=['self.g_log[]'], raises_any=True)
extern('stream', 'flush', why="the caller's stream: flush() writes nothing", requires=[], ensures=[], modifies=[], raises_any=True)

define('LOG', ['s'], "seq(s.stream.g_log)")
define('ENC', ['s', 'text'], "(text.encode(s.encoding) if s.encoding else text)")
define('inv_prefixes', ['s'], "s.tag_prefixes is not None and sortable_keys(s.tag_prefixes) and forall_v(k, haskey(s.tag_prefixes, k) ==> (typeis(k, 'str') and typeis(dget(s.tag_prefixes, k), 'str')))")
define('inv_prep', ['s'], "(s.prepared_anchor is None or len(s.prepared_anchor) > 0) and (s.prepared_tag is None or len(s.prepared_tag) > 0)")
define('inv_pos', ['s'], "s.column >= 0 and s.line >= 0 and (s.indent is None or s.indent >= 0) and 2 <= s.best_indent and s.best_indent <= 9 and heapobj(s.stream.g_log)")

# ---- C15: the effective formatting parameters are the documented function of the requested ones
contract(E + '__init__',
    props=['C15'],
    params={'indent': 'opt:int', 'width': 'opt:int', 'line_break': 'opt:str', 'stream': 'stream'},
    requires=[],
    ensures=[
        "self.best_indent == (indent if (indent is not None and 1 < indent and indent < 10) else 2)",
        "self.best_width == (width if (width is not None and width > 2*self.best_indent) else 80)",
        "self.best_width > 2*self.best_indent",
        "self.best_line_break == '\\r' or self.best_line_break == '\\n' or self.best_line_break == '\\r\\n'",
        "(line_break == '\\r' or line_break == '\\n' or line_break == '\\r\\n') ==> self.best_line_break == line_break",
        "2 <= self.best_indent and self.best_indent <= 9",
        "self.indent is None and self.flow_level == 0 and self.column == 0 and self.line == 0",
        "len(self.states) == 0 and len(self.events) == 0 and len(self.indents) == 0",
        "fresh(self.states) and fresh(self.events) and fresh(self.indents)",
        "self.state == func('expect_stream_start')",
        "self.open_ended == False and self.whitespace == True and self.indention == True",
        "self.canonical is canonical and self.allow_unicode is allow_unicode and self.stream is stream",
        # C11/C12: no tag prefixes before the first document; in particular the class-level default table is not aliased
        "self.tag_prefixes is None and self.prepared_anchor is None and self.prepared_tag is None and self.analysis is None and self.style is None",
    ],
    labels={0: 'best_indent', 1: 'best_width', 2: 'width-exceeds-two-indents', 3: 'line-break-one-of-three',
            4: 'line-break-honoured', 5: 'indent-2-to-9', 6: 'initial-position', 7: 'empty-stacks',
            8: 'fresh-stacks', 9: 'initial-state', 10: 'initial-flags', 11: 'options-stored', 12: 'nothing-prepared'},
    modifies=['self.' + f for f in ['stream', 'encoding', 'states', 'state', 'events', 'event', 'indents', 'indent',
              'flow_level', 'root_context', 'sequence_context', 'mapping_context', 'simple_key_context', 'line',
              'column', 'whitespace', 'indention', 'open_ended', 'canonical', 'allow_unicode', 'best_indent',
              'best_width', 'best_line_break', 'tag_prefixes', 'prepared_anchor', 'prepared_tag', 'analysis', 'style']],
    raises=[])

OUT = ['self.stream.g_log[]']
ENCERR = ['UnicodeEncodeError', 'LookupError']     # a caller-chosen codec that cannot encode the text: passes through unchanged

# ---- C15: every byte of output goes through these five; column/line bookkeeping is exact
contract(E + 'write_indicator', props=['C15', 'C12', 'C05'],
    params={'indicator': 'str', 'need_whitespace': 'bool', 'whitespace': 'bool', 'indention': 'bool'},
    requires=["inv_pos(self)"],
    ensures=["inv_pos(self)",
             "LOG(self) == old(LOG(self)) + [ENC(self, indicator if (old(self.whitespace) or not need_whitespace) else ' ' + indicator)]",
             "self.column == old(self.column) + len(indicator) + (0 if (old(self.whitespace) or not need_whitespace) else 1)",
             "self.whitespace == whitespace and self.indention == (old(self.indention) and indention) and self.open_ended == False",
             "self.line == old(self.line)"],
    labels={0: 'inv_pos', 1: 'writes-exactly-the-indicator', 2: 'column-advances-by-what-was-written', 3: 'flags', 4: 'same-line'},
    modifies=['self.whitespace', 'self.indention', 'self.column', 'self.open_ended'] + OUT, raises=ENCERR, raises_any=True)

contract(E + 'write_line_break', props=['C15', 'C12'],
    params={'data': 'opt:str'},
    requires=["inv_pos(self)"],
    ensures=["inv_pos(self)",
             # C15: a line break nobody chose explicitly is the requested one
             "LOG(self) == old(LOG(self)) + [ENC(self, self.best_line_break if data is None else data)]",
             "self.column == 0 and self.line == old(self.line) + 1 and self.whitespace == True and self.indention == True"],
    labels={0: 'inv_pos', 1: 'writes-the-effective-line-break', 2: 'new-line-position'},
    modifies=['self.whitespace', 'self.indention', 'self.column', 'self.line'] + OUT, raises=ENCERR, raises_any=True)

contract(E + 'write_indent', props=['C15', 'C12'],
    requires=["inv_pos(self)"],
    ensures=["inv_pos(self)",
             # C15/C12: afterwards the cursor sits exactly at the current indentation (column 0 for a document marker)
             "self.column == (0 if self.indent is None else self.indent)",
             "prefix_of(old(LOG(self)), LOG(self))",
             "self.line >= old(self.line)"],
    labels={0: 'inv_pos', 1: 'cursor-at-indentation', 2: 'append-only', 3: 'never-moves-up'},
    modifies=['self.whitespace', 'self.indention', 'self.column', 'self.line'] + OUT, raises=ENCERR, raises_any=True)

for _n, _fmt, _args in [('write_version_directive', '%%YAML %s', 'version_text'), ('write_tag_directive', '%%TAG %s %s', '(handle_text, prefix_text)')]:
    contract(E + _n, props=['C15', 'C12'],
        requires=["inv_pos(self)"],
        ensures=["inv_pos(self)", "len(LOG(self)) == old(len(LOG(self))) + 2 and prefix_of(old(LOG(self)), LOG(self))",
                 "LOG(self)[old(len(LOG(self)))] == ENC(self, '%s' %% %s)" % (_fmt, _args),
                 "self.column == 0 and self.line == old(self.line) + 1"],
        labels={0: 'inv_pos', 1: 'directive-and-line-break', 2: 'directive-text', 3: 'new-line-position'},
        modifies=['self.whitespace', 'self.indention', 'self.column', 'self.line'] + OUT, raises=ENCERR, raises_any=True)

contract(E + 'flush_stream', props=['C15', 'C19'], requires=[], ensures=["LOG(self) == old(LOG(self))"], labels={0: 'writes-nothing'}, modifies=[], raises_any=True)
contract(E + 'write_stream_end', props=['C15', 'C19'], requires=[], ensures=["LOG(self) == old(LOG(self))"], labels={0: 'writes-nothing'}, modifies=[], raises_any=True)
contract(E + 'write_stream_start', props=['C15'],
    requires=["heapobj(self.stream.g_log)"],
    ensures=[
        # C15: a UTF-16 stream starts with exactly one BOM, any other encoding with none
        "(self.encoding is not None and self.encoding != '' and self.encoding.startswith('utf-16')) ==> LOG(self) == old(LOG(self)) + ['\\uFEFF'.encode(self.encoding)]",
        "not (self.encoding is not None and self.encoding != '' and self.encoding.startswith('utf-16')) ==> LOG(self) == old(LOG(self))"],
    labels={0: 'bom-for-utf-16', 1: 'no-bom-otherwise'}, modifies=OUT, raises=ENCERR, raises_any=True)

contract(E + 'increase_indent', props=['C15'],
    params={'flow': 'bool', 'indentless': 'bool'},
    requires=["inv_pos(self)"],
    ensures=["inv_pos(self)",
             "seq(self.indents) == old(seq(self.indents)) + [old(self.indent)]",
             # C15: indentation grows in steps of the effective indent only
             "old(self.indent) is None ==> self.indent == (self.best_indent if flow else 0)",
             "old(self.indent) is not None ==> self.indent == old(self.indent) + (0 if indentless else self.best_indent)"],
    labels={0: 'inv_pos', 1: 'previous-indent-saved', 2: 'first-level', 3: 'one-step-deeper'},
    modifies=['self.indent', 'self.indents[]'], raises=[])

# ---- C02: block scalar header: indentation indicator exactly when the text starts with a space or a break;
#      chomping '-' when there is no final break, '+' when the final break is kept, none for a single final break
BRK = "'\\n\\x85\\u2028\\u2029'"
SPBRK = "' \\n\\x85\\u2028\\u2029'"
contract(E + 'determine_block_hints', props=['C02', 'C05'],
    params={'text': 'str'},
    requires=["2 <= self.best_indent and self.best_indent <= 9"],
    result='str',
    ensures=[
        "(len(text) > 0 and text[0] in %s) ==> result.startswith(str(self.best_indent))" % SPBRK,
        "not (len(text) > 0 and text[0] in %s) ==> (result == '' or result == '-' or result == '+')" % SPBRK,
        "(len(text) > 0 and text[-1] not in %s) ==> result.endswith('-')" % BRK,
        "(len(text) > 0 and text[-1] in %s and (len(text) == 1 or text[-2] in %s)) ==> result.endswith('+')" % (BRK, BRK),
        "(len(text) > 1 and text[-1] in %s and text[-2] not in %s) ==> not (result.endswith('+') or result.endswith('-'))" % (BRK, BRK),
        "len(text) == 0 ==> result == ''",
    ],
    labels={0: 'indentation-indicator-when-leading-space-or-break', 1: 'no-indicator-otherwise', 2: 'strip-when-no-final-break',
            3: 'keep-when-trailing-breaks', 4: 'clip-for-single-final-break', 5: 'empty-text'},
    modifies=[], raises=[])

# ---- C05: anchors and tags: what was prepared for one node never leaks into the next
contract(E + 'prepare_anchor', props=['C05'],
         params={'anchor': 'str'}, result='str', requires=[], ensures=["result == anchor and len(result) > 0"], labels={0: 'the-anchor-itself-non-empty'},
         invariants={0: ["typeis(anchor, 'str')"]}, modifies=[], raises=[EERR])
_PT_INV = ["typeis(tag, 'str') and typeis(suffix, 'str') and typeis(chunks, 'list') and fresh(chunks) and 0 <= start and start <= end and end <= len(suffix)",
           "forall(j, 0, len(chunks), typeis(chunks[j], 'str'))", "handle is None or typeis(handle, 'str')"]
contract(E + 'prepare_tag', props=['C05'],
         params={'tag': 'str'}, result='str',
         requires=["inv_prefixes(self)"],
         ensures=["len(result) > 0"], labels={0: 'non-empty-text'},
         invariants={0: ["typeis(tag, 'str') and typeis(suffix, 'str')", "handle is None or typeis(handle, 'str')"], 1: _PT_INV, 2: _PT_INV},
         modifies=[], raises=[EERR])
contract(E + 'analyze_scalar', trusted=True, why='character scan of the scalar; only the shape of the result is used here',
         params={'scalar': 'str'}, result='obj:yaml.emitter.ScalarAnalysis', requires=[], ensures=["fresh(result) and result.scalar == scalar and result.empty == (len(scalar) == 0)",
                                                                                                     "result.empty ==> not result.multiline"], modifies=[], raises=[])

define('is_node_event', ['e'], "typeis(e, 'obj:yaml.events.NodeEvent')")
define('ev_ok', ['e'], "(typeis(e, 'obj:yaml.events.NodeEvent') ==> (e.anchor is None or typeis(e.anchor, 'str'))) and "
                         "((typeis(e, 'obj:yaml.events.ScalarEvent') or typeis(e, 'obj:yaml.events.CollectionStartEvent')) ==> (as_(e, 'obj:yaml.events.ScalarEvent').tag is None or typeis(as_(e, 'obj:yaml.events.ScalarEvent').tag, 'str'))) and "
                         "(typeis(e, 'obj:yaml.events.ScalarEvent') ==> (typeis(as_(e, 'obj:yaml.events.ScalarEvent').value, 'str') and typeis(as_(e, 'obj:yaml.events.ScalarEvent').implicit, 'tuple') and len(as_(e, 'obj:yaml.events.ScalarEvent').implicit) == 2 "
                         "and (as_(e, 'obj:yaml.events.ScalarEvent').style is None or as_(e, 'obj:yaml.events.ScalarEvent').style in ['', chr(39), chr(34), '|', '>'])))")

contract(E + 'process_anchor', props=['C05'],
    params={'indicator': 'str'},
    requires=["inv_pos(self)", "is_node_event(self.event)", "ev_ok(self.event)", "inv_prep(self)"],
    ensures=["inv_pos(self)", "self.prepared_anchor is None",
             "as_(self.event, 'obj:yaml.events.NodeEvent').anchor is None ==> LOG(self) == old(LOG(self))",
             "as_(self.event, 'obj:yaml.events.NodeEvent').anchor is not None ==> len(LOG(self)) == old(len(LOG(self))) + 1"],
    labels={0: 'inv_pos', 1: 'prepared-anchor-consumed', 2: 'no-anchor-no-output', 3: 'anchor-written-once'},
    modifies=['self.prepared_anchor', 'self.whitespace', 'self.indention', 'self.column', 'self.open_ended'] + OUT, raises=[EERR] + ENCERR, raises_any=True)

contract(E + 'choose_scalar_style', props=['C02', 'C08', 'C05'],
    requires=["typeis(self.event, 'obj:yaml.events.ScalarEvent')", "ev_ok(self.event)"],
    result='str',
    ensures=[
        "result == '' or result == '\"' or result == \"'\" or result == '|' or result == '>'",
        # C08/C02: a scalar is written plain only if the event says the tag can be re-derived from the plain text,
        # no style was asked for, and the analysis allows plain text in the current context
        "result == '' ==> (as_(self.event, 'obj:yaml.events.ScalarEvent').implicit[0] and not as_(self.event, 'obj:yaml.events.ScalarEvent').style and not self.canonical)",
        "result == '' ==> ((self.flow_level != 0 and self.analysis.allow_flow_plain) or (self.flow_level == 0 and self.analysis.allow_block_plain))",
        "result == '' ==> not (self.simple_key_context and (self.analysis.empty or self.analysis.multiline))",
        "(result == '|' or result == '>') ==> (self.analysis.allow_block and self.flow_level == 0 and not self.simple_key_context and not self.canonical)",
        "result == \"'\" ==> (self.analysis.allow_single_quoted and not (self.simple_key_context and self.analysis.multiline) and not self.canonical)",
        "self.analysis is not None",
    ],
    labels={0: 'one-of-five-styles', 1: 'plain-needs-implicit-and-no-style-request', 2: 'plain-needs-analysis-permission', 3: 'plain-key-is-single-line-nonempty',
            4: 'block-style-permission', 5: 'single-quoted-permission', 6: 'analysis-available'},
    modifies=['self.analysis'], raises=[])

contract(E + 'process_tag', props=['C05', 'C02', 'C08'],
    requires=["inv_pos(self)", "typeis(self.event, 'obj:yaml.events.ScalarEvent') or typeis(self.event, 'obj:yaml.events.CollectionStartEvent')", "ev_ok(self.event)",
              "inv_prefixes(self)", "inv_prep(self)"],
    ensures=["inv_pos(self)",
             # C05: whatever check_simple_key prepared for this node is consumed here, on every path
             "self.prepared_tag is None",
             # C02/C08: the tag is left out only when the event says the loader re-derives it for the style that is used
             "(typeis(self.event, 'obj:yaml.events.ScalarEvent') and LOG(self) == old(LOG(self))) ==> "
             "((self.style == '' and as_(self.event, 'obj:yaml.events.ScalarEvent').implicit[0]) or (self.style != '' and as_(self.event, 'obj:yaml.events.ScalarEvent').implicit[1]))",
             "typeis(self.event, 'obj:yaml.events.ScalarEvent') ==> self.style is not None",
             "len(LOG(self)) <= old(len(LOG(self))) + 1"],
    labels={0: 'inv_pos', 1: 'prepared-tag-consumed', 2: 'tag-elided-only-when-implicit-for-the-style', 3: 'style-chosen', 4: 'at-most-one-chunk'},
    modifies=['self.prepared_tag', 'self.style', 'self.analysis', 'self.whitespace', 'self.indention', 'self.column', 'self.open_ended'] + OUT,
    raises=[EERR] + ENCERR, raises_any=True)

contract(E + 'expect_nothing', props=['C05'], requires=[], ensures=["False"], labels={0: 'always-raises'}, modifies=[], raises=[EERR])

# ---- C12 / C15 / C11: document boundaries
# ---- C05: the preparers reject bad input with EmitterError only, for arbitrary text
contract(E + 'prepare_version', props=['C05', 'C12'],
    requires=["typeis(version, 'tuple') and len(version) == 2 and typeis(version[0], 'int') and typeis(version[1], 'int')"], result='str',
    ensures=["version[0] == 1"], labels={0: 'only-version-1-is-written'}, modifies=[], raises=[EERR])
contract(E + 'prepare_tag_handle', props=['C05', 'C12'], params={'handle': 'str'}, result='str',
    requires=[], ensures=["result == handle and len(handle) >= 1 and handle[0] == '!' and handle[len(handle) - 1] == '!'"],
    labels={0: 'handle-is-bang-delimited'}, invariants={0: ["typeis(handle, 'str')"]}, modifies=[], raises=[EERR])
contract(E + 'prepare_tag_prefix', props=['C05', 'C12'], params={'prefix': 'str'}, result='str',
    requires=[], ensures=["len(prefix) > 0"], labels={0: 'prefix-not-empty'},
    invariants={0: ["typeis(prefix, 'str') and typeis(chunks, 'list') and fresh(chunks) and 0 <= start and start <= end and end <= len(prefix)",
                    "forall(j, 0, len(chunks), typeis(chunks[j], 'str'))"],
                1: ["typeis(prefix, 'str') and typeis(chunks, 'list') and fresh(chunks) and 0 <= start and start <= end and end <= len(prefix)",
                    "forall(j, 0, len(chunks), typeis(chunks[j], 'str'))"]},
    modifies=[], raises=[EERR])

define('doc_ok', ['e'], "typeis(e, 'obj:yaml.events.DocumentStartEvent') ==> ("
       "(as_(e, 'obj:yaml.events.DocumentStartEvent').version is None or (typeis(as_(e, 'obj:yaml.events.DocumentStartEvent').version, 'tuple') and len(as_(e, 'obj:yaml.events.DocumentStartEvent').version) == 2 "
       "and typeis(as_(e, 'obj:yaml.events.DocumentStartEvent').version[0], 'int') and typeis(as_(e, 'obj:yaml.events.DocumentStartEvent').version[1], 'int'))) and "
       "(as_(e, 'obj:yaml.events.DocumentStartEvent').tags is None or (typeis(as_(e, 'obj:yaml.events.DocumentStartEvent').tags, 'dict') and sortable_keys(as_(e, 'obj:yaml.events.DocumentStartEvent').tags) and "
       "forall_v(k, haskey(as_(e, 'obj:yaml.events.DocumentStartEvent').tags, k) ==> (typeis(k, 'str') and typeis(dget(as_(e, 'obj:yaml.events.DocumentStartEvent').tags, k), 'str'))))))")

contract(E + 'check_empty_document', props=['C12'],
    requires=["len(self.events) > 0 ==> ev_ok(self.events[0])"], result='bool',
    ensures=["result ==> (typeis(self.event, 'obj:yaml.events.DocumentStartEvent') and len(self.events) > 0 and typeis(self.events[0], 'obj:yaml.events.ScalarEvent'))"],
    labels={0: 'only-for-an-empty-plain-root-scalar'}, modifies=[], raises=[])

_WR = ['self.whitespace', 'self.indention', 'self.column', 'self.line', 'self.open_ended'] + OUT
contract(E + 'expect_document_start', props=['C12', 'C15', 'C11', 'C05'], max_paths=8,
    params={'first': 'bool'},
    requires=["inv_pos(self)", "doc_ok(self.event)", "len(self.events) > 0 ==> ev_ok(self.events[0])"],
    ensures=[
        "inv_pos(self)",
        "typeis(self.event, 'obj:yaml.events.DocumentStartEvent') or typeis(self.event, 'obj:yaml.events.StreamEndEvent')",
        "typeis(self.event, 'obj:yaml.events.DocumentStartEvent') ==> self.state == func('expect_document_root')",
        "typeis(self.event, 'obj:yaml.events.StreamEndEvent') ==> self.state == func('expect_nothing')",
        # C11/C12/C15: the tag prefixes of a document are rebuilt from the defaults plus this document's own %TAG lines
        "typeis(self.event, 'obj:yaml.events.DocumentStartEvent') ==> (fresh(self.tag_prefixes) and haskey(self.tag_prefixes, '!') and haskey(self.tag_prefixes, 'tag:yaml.org,2002:'))",
    ],
    labels={0: 'inv_pos', 1: 'accepts-only-document-start-or-stream-end', 2: 'next-is-the-root-node', 3: 'stream-end-is-final',
            4: 'tag-prefixes-rebuilt-per-document'},
    invariants={0: ["inv_pos(self)", "fresh(self.tag_prefixes) and haskey(self.tag_prefixes, '!') and haskey(self.tag_prefixes, 'tag:yaml.org,2002:')",
                    "doc_ok(self.event)", "typeis(self.event, 'obj:yaml.events.DocumentStartEvent')", "self.state is old(self.state)",
                    "self.canonical is old(self.canonical) and self.event is old(self.event)"]},
    modifies=_WR + ['self.tag_prefixes', 'self.tag_prefixes[]', 'self.state'], raises=[EERR, 'TypeError', 'ValueError'] + ENCERR, raises_any=True)

contract(E + 'expect_first_document_start', props=['C12', 'C15'],
    requires=["inv_pos(self)", "doc_ok(self.event)", "len(self.events) > 0 ==> ev_ok(self.events[0])"],
    ensures=["inv_pos(self)", "typeis(self.event, 'obj:yaml.events.DocumentStartEvent') or typeis(self.event, 'obj:yaml.events.StreamEndEvent')"],
    labels={0: 'inv_pos', 1: 'accepts-only-document-start-or-stream-end'},
    modifies=_WR + ['self.tag_prefixes', 'self.tag_prefixes[]', 'self.state'], raises=[EERR, 'TypeError', 'ValueError'] + ENCERR, raises_any=True)

contract(E + 'expect_document_end', props=['C12', 'C15'],
    requires=["inv_pos(self)"],
    ensures=["inv_pos(self)", "typeis(self.event, 'obj:yaml.events.DocumentEndEvent')", "self.state == func('expect_document_start')",
             # C15: explicit_end produces the '...' marker
             "as_(self.event, 'obj:yaml.events.DocumentEndEvent').explicit ==> (seq_contains(LOG(self), old(len(LOG(self))), ENC(self, '...')) or seq_contains(LOG(self), old(len(LOG(self))), ENC(self, ' ...')))",
             "prefix_of(old(LOG(self)), LOG(self))"],
    labels={0: 'inv_pos', 1: 'accepts-only-document-end', 2: 'next-document-is-never-first', 3: 'document-end-marker-written', 4: 'append-only'},
    modifies=_WR + ['self.state'], raises=[EERR] + ENCERR, raises_any=True)

contract(E + 'expect_stream_start', props=['C05', 'C15'],
    requires=["heapobj(self.stream.g_log)", "typeis(self.event, 'obj:yaml.events.StreamStartEvent') ==> (as_(self.event, 'obj:yaml.events.StreamStartEvent').encoding is None or typeis(as_(self.event, 'obj:yaml.events.StreamStartEvent').encoding, 'str'))"],
    ensures=["typeis(self.event, 'obj:yaml.events.StreamStartEvent')", "self.state == func('expect_first_document_start')", "prefix_of(old(LOG(self)), LOG(self))"],
    labels={0: 'accepts-only-stream-start', 1: 'next-is-the-first-document', 2: 'append-only'},
    modifies=['self.encoding', 'self.state'] + OUT, raises=[EERR] + ENCERR, raises_any=True)

# ---- C12: a plain scalar at the root leaves the document open-ended (so that '...' is written before any directive)
_WP_INV = ["inv_pos(self)", "old(self.root_context) ==> self.open_ended",
           "typeis(text, 'str') and end >= 0 and start >= 0 and start <= end"]
contract(E + 'write_plain', props=['C12', 'C15'], max_paths=6,
    params={'text': 'str', 'split': 'bool'},
    # plain style is only chosen for texts without line breaks (choose_scalar_style + analyze_scalar)
    requires=["inv_pos(self)", "forall(i, 0, len(text), text[i] not in %s)" % BRK],
    ensures=["inv_pos(self)", "old(self.root_context) ==> self.open_ended",
             "not old(self.root_context) ==> self.open_ended == old(self.open_ended)"],
    labels={0: 'inv_pos', 1: 'root-plain-scalar-is-open-ended', 2: 'flag-untouched-elsewhere'}, dead_loops=[1],
    invariants={0: _WP_INV + ["end <= len(text) + 1", "breaks == False", "not old(self.root_context) ==> self.open_ended == old(self.open_ended)"],
                1: _WP_INV + ["end <= len(text)", "not old(self.root_context) ==> self.open_ended == old(self.open_ended)"]},
    modifies=['self.whitespace', 'self.indention', 'self.column', 'self.line', 'self.open_ended'] + OUT, raises=ENCERR, raises_any=True)
