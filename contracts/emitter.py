"""Contracts for lib/yaml/emitter.py (C15 formatting options, C05 tag/anchor processing + error class, C12 document boundaries,
C02 block-scalar hints and style choice).

Ghost output log: the stream object carries g_log, the list of chunks handed to stream.write() so far (appended by the
assumed contract of stream.write).  "the marker '---' is written" is then a statement about that log.
"""
import z3
from pyvc.spec import contract, fields, define, extern
from pyvc.z3v import *
from pyvc.calls import has_chunk_lemmas as _has_chunk_lemmas

E = 'yaml.emitter.Emitter.'
EERR = 'yaml.emitter.EmitterError'

fields('yaml.emitter.Emitter',
       stream='stream', encoding='opt:str', states='list', state='opt:func', events='list', event='any',
       indents='list', indent='opt:int', flow_level='int',
       root_context='bool', sequence_context='bool', mapping_context='bool', simple_key_context='bool',
       line='int', column='int', whitespace='bool', indention='bool', open_ended='bool',
       canonical='any', allow_unicode='any', best_indent='int', best_width='int', best_line_break='str',
       tag_prefixes='opt:dict', prepared_anchor='opt:str', prepared_tag='opt:str', analysis='opt:obj:yaml.emitter.ScalarAnalysis', style='opt:str')
fields('yaml.emitter.ScalarAnalysis', scalar='str', empty='bool', multiline='bool', allow_flow_plain='bool', allow_block_plain='bool',
       allow_single_quoted='bool', allow_double_quoted='bool', allow_block='bool')
fields('stream', g_log='list')

# ---- the caller's stream: ASSUMED contract (anything may be raised; the chunk is appended to the ghost log)
extern('stream', 'write', why="the caller's stream: write(chunk) appends the chunk to the ghost output log or raises anything",
       requires=[], ensures=["seq(self.g_log) == old(seq(self.g_log)) + [args[0]]"], modifies=['self.g_log[]'], raises_any=True)
extern('stream', 'flush', why="the caller's stream: flush() writes nothing", requires=[], ensures=[], modifies=[], raises_any=True)

define('LOG', ['s'], "seq(s.stream.g_log)")
define('ENC', ['s', 'text'], "(text.encode(s.encoding) if s.encoding else text)")
define('inv_prefixes', ['s'], "s.tag_prefixes is not None and sortable_keys(s.tag_prefixes) and forall_v(k, haskey(s.tag_prefixes, k) ==> (typeis(k, 'str') and typeis(dget(s.tag_prefixes, k), 'str')))")
define('inv_prep', ['s'], "(s.prepared_anchor is None or len(s.prepared_anchor) > 0) and (s.prepared_tag is None or len(s.prepared_tag) > 0)")
define('inv_pos', ['s'], "s.column >= 0 and s.line >= 0 and (s.indent is None or s.indent >= 0) and 2 <= s.best_indent and s.best_indent <= 9 and heapobj(s.stream.g_log)")

# ---- C15: the effective formatting parameters are the documented function of the requested ones
contract(E + '__init__',
    props=['C15'],
    params={'indent': 'opt:int', 'width': 'opt:int', 'line_break': 'opt:str', 'stream': 'stream'},
    requires=[],
    ensures=[
        "self.best_indent == (indent if (indent is not None and 1 < indent and indent < 10) else 2)",
        "self.best_width == (width if (width is not None and width > 2*self.best_indent) else 80)",
        "self.best_width > 2*self.best_indent",
        "self.best_line_break == '\\r' or self.best_line_break == '\\n' or self.best_line_break == '\\r\\n'",
        "(line_break == '\\r' or line_break == '\\n' or line_break == '\\r\\n') ==> self.best_line_break == line_break",
        "2 <= self.best_indent and self.best_indent <= 9",
        "self.indent is None and self.flow_level == 0 and self.column == 0 and self.line == 0",
        "len(self.states) == 0 and len(self.events) == 0 and len(self.indents) == 0",
        "fresh(self.states) and fresh(self.events) and fresh(self.indents)",
        "self.state == func('expect_stream_start')",
        "self.open_ended == False and self.whitespace == True and self.indention == True",
        "self.canonical is canonical and self.allow_unicode is allow_unicode and self.stream is stream",
        # C11/C12: no tag prefixes before the first document; in particular the class-level default table is not aliased
        "self.tag_prefixes is None and self.prepared_anchor is None and self.prepared_tag is None and self.analysis is None and self.style is None",
    ],
    labels={0: 'best_indent', 1: 'best_width', 2: 'width-exceeds-two-indents', 3: 'line-break-one-of-three',
            4: 'line-break-honoured', 5: 'indent-2-to-9', 6: 'initial-position', 7: 'empty-stacks',
            8: 'fresh-stacks', 9: 'initial-state', 10: 'initial-flags', 11: 'options-stored', 12: 'nothing-prepared'},
    modifies=['self.' + f for f in ['stream', 'encoding', 'states', 'state', 'events', 'event', 'indents', 'indent',
              'flow_level', 'root_context', 'sequence_context', 'mapping_context', 'simple_key_context', 'line',
              'column', 'whitespace', 'indention', 'open_ended', 'canonical', 'allow_unicode', 'best_indent',
              'best_width', 'best_line_break', 'tag_prefixes', 'prepared_anchor', 'prepared_tag', 'analysis', 'style']],
    raises=[])

OUT = ['self.stream.g_log[]']
ENCERR = ['UnicodeEncodeError', 'LookupError']     # a caller-chosen codec that cannot encode the text: passes through unchanged

# ---- C15: every byte of output goes through these five; column/line bookkeeping is exact
contract(E + 'write_indicator', props=['C15', 'C12', 'C05'],
    params={'indicator': 'str', 'need_whitespace': 'bool', 'whitespace': 'bool', 'indention': 'bool'},
    requires=["inv_pos(self)"],
    ensures=["inv_pos(self)",
             "LOG(self) == old(LOG(self)) + [ENC(self, indicator if (old(self.whitespace) or not need_whitespace) else ' ' + indicator)]",
             "self.column == old(self.column) + len(indicator) + (0 if (old(self.whitespace) or not need_whitespace) else 1)",
             "self.whitespace == whitespace and self.indention == (old(self.indention) and indention) and self.open_ended == False",
             "self.line == old(self.line)"],
    labels={0: 'inv_pos', 1: 'writes-exactly-the-indicator', 2: 'column-advances-by-what-was-written', 3: 'flags', 4: 'same-line'},
    modifies=['self.whitespace', 'self.indention', 'self.column', 'self.open_ended'] + OUT, raises=ENCERR, raises_any=True)

contract(E + 'write_line_break', props=['C15', 'C12'],
    params={'data': 'opt:str'},
    # C15: nobody asks for a line feed explicitly -- a line feed of the text is written as the effective line break (data is None)
    requires=["inv_pos(self)", "data is None or data != '\\n'"],
    ensures=["inv_pos(self)",
             # C15: a line break nobody chose explicitly is the requested one
             "LOG(self) == old(LOG(self)) + [ENC(self, self.best_line_break if data is None else data)]",
             "self.column == 0 and self.line == old(self.line) + 1 and self.whitespace == True and self.indention == True"],
    labels={0: 'inv_pos', 1: 'writes-the-effective-line-break', 2: 'new-line-position'},
    modifies=['self.whitespace', 'self.indention', 'self.column', 'self.line'] + OUT, raises=ENCERR, raises_any=True)

contract(E + 'write_indent', props=['C15', 'C12'],
    requires=["inv_pos(self)"],
    ensures=["inv_pos(self)",
             # C15/C12: afterwards the cursor sits exactly at the current indentation (column 0 for a document marker)
             "self.column == (0 if self.indent is None else self.indent)",
             "prefix_of(old(LOG(self)), LOG(self))",
             "self.line >= old(self.line)"],
    labels={0: 'inv_pos', 1: 'cursor-at-indentation', 2: 'append-only', 3: 'never-moves-up'},
    modifies=['self.whitespace', 'self.indention', 'self.column', 'self.line'] + OUT, raises=ENCERR, raises_any=True)

for _n, _fmt, _args in [('write_version_directive', '%%YAML %s', 'version_text'), ('write_tag_directive', '%%TAG %s %s', '(handle_text, prefix_text)')]:
    contract(E + _n, props=['C15', 'C12'],
        requires=["inv_pos(self)"],
        ensures=["inv_pos(self)", "len(LOG(self)) == old(len(LOG(self))) + 2 and prefix_of(old(LOG(self)), LOG(self))",
                 "LOG(self)[old(len(LOG(self)))] == ENC(self, '%s' %% %s)" % (_fmt, _args),
                 "self.column == 0 and self.line == old(self.line) + 1"],
        labels={0: 'inv_pos', 1: 'directive-and-line-break', 2: 'directive-text', 3: 'new-line-position'},
        modifies=['self.whitespace', 'self.indention', 'self.column', 'self.line'] + OUT, raises=ENCERR, raises_any=True)

contract(E + 'flush_stream', props=['C15', 'C19'], requires=[], ensures=["LOG(self) == old(LOG(self))"], labels={0: 'writes-nothing'}, modifies=[], raises_any=True)
contract(E + 'write_stream_end', props=['C15', 'C19'], requires=[], ensures=["LOG(self) == old(LOG(self))"], labels={0: 'writes-nothing'}, modifies=[], raises_any=True)
contract(E + 'write_stream_start', props=['C15'],
    requires=["heapobj(self.stream.g_log)"],
    ensures=[
        # C15: a UTF-16 stream starts with exactly one BOM, any other encoding with none
        "(self.encoding is not None and self.encoding != '' and self.encoding.startswith('utf-16')) ==> LOG(self) == old(LOG(self)) + ['\\uFEFF'.encode(self.encoding)]",
        "not (self.encoding is not None and self.encoding != '' and self.encoding.startswith('utf-16')) ==> LOG(self) == old(LOG(self))"],
    labels={0: 'bom-for-utf-16', 1: 'no-bom-otherwise'}, modifies=OUT, raises=ENCERR, raises_any=True)

contract(E + 'increase_indent', props=['C15'],
    params={'flow': 'bool', 'indentless': 'bool'},
    requires=["inv_pos(self)"],
    ensures=["inv_pos(self)",
             "seq(self.indents) == old(seq(self.indents)) + [old(self.indent)]",
             # C15: indentation grows in steps of the effective indent only
             "old(self.indent) is None ==> self.indent == (self.best_indent if flow else 0)",
             "old(self.indent) is not None ==> self.indent == old(self.indent) + (0 if indentless else self.best_indent)"],
    labels={0: 'inv_pos', 1: 'previous-indent-saved', 2: 'first-level', 3: 'one-step-deeper'},
    modifies=['self.indent', 'self.indents[]'], raises=[])

# ---- C02: block scalar header: indentation indicator exactly when the text starts with a space or a break;
#      chomping '-' when there is no final break, '+' when the final break is kept, none for a single final break
BRK = "'\\n\\x85\\u2028\\u2029'"
SPBRK = "' \\n\\x85\\u2028\\u2029'"
contract(E + 'determine_block_hints', props=['C02', 'C05'],
    params={'text': 'str'},
    requires=["2 <= self.best_indent and self.best_indent <= 9"],
    result='str',
    ensures=[
        "(len(text) > 0 and text[0] in %s) ==> result.startswith(str(self.best_indent))" % SPBRK,
        "not (len(text) > 0 and text[0] in %s) ==> (result == '' or result == '-' or result == '+')" % SPBRK,
        "(len(text) > 0 and text[-1] not in %s) ==> result.endswith('-')" % BRK,
        "(len(text) > 0 and text[-1] in %s and (len(text) == 1 or text[-2] in %s)) ==> result.endswith('+')" % (BRK, BRK),
        "(len(text) > 1 and text[-1] in %s and text[-2] not in %s) ==> not (result.endswith('+') or result.endswith('-'))" % (BRK, BRK),
        "len(text) == 0 ==> result == ''",
    ],
    labels={0: 'indentation-indicator-when-leading-space-or-break', 1: 'no-indicator-otherwise', 2: 'strip-when-no-final-break',
            3: 'keep-when-trailing-breaks', 4: 'clip-for-single-final-break', 5: 'empty-text'},
    modifies=[], raises=[])

# ---- C05: anchors and tags: what was prepared for one node never leaks into the next
contract(E + 'prepare_anchor', props=['C05'],
         params={'anchor': 'str'}, result='str', requires=[], ensures=["result == anchor and len(result) > 0"], labels={0: 'the-anchor-itself-non-empty'},
         invariants={0: ["typeis(anchor, 'str')"]}, modifies=[], raises=[EERR])
_PT_INV = ["typeis(tag, 'str') and typeis(suffix, 'str') and typeis(chunks, 'list') and fresh(chunks) and 0 <= start and start <= end and end <= len(suffix)",
           "forall(j, 0, len(chunks), typeis(chunks[j], 'str'))", "handle is None or typeis(handle, 'str')"]
contract(E + 'prepare_tag', props=['C05'],
         params={'tag': 'str'}, result='str',
         requires=["inv_prefixes(self)"],
         ensures=["len(result) > 0"], labels={0: 'non-empty-text'},
         invariants={0: ["typeis(tag, 'str') and typeis(suffix, 'str')", "handle is None or typeis(handle, 'str')"], 1: _PT_INV, 2: _PT_INV},
         modifies=[], raises=[EERR])
define('okc', ['s', 'ch'], "(ch == '\\n' or (' ' <= ch and ch <= '~')) or (s.allow_unicode and uniprintable(ch))")
_AS_INV = ["typeis(scalar, 'str') and 0 <= index and index <= len(scalar)",
           # C15: as long as no character was classified special, every character seen is printable ASCII / a line feed / (with allow_unicode) printable unicode
           "not special_characters ==> forall(j, 0, index, okc(self, scalar[j]))",
           # C02/C12: as long as no line break was seen there is none
           "not line_breaks ==> forall(j, 0, index, scalar[j] not in %s)" % BRK]
contract(E + 'analyze_scalar', props=['C15', 'C02', 'C05'], max_paths=2,
         params={'scalar': 'str'}, result='obj:yaml.emitter.ScalarAnalysis', requires=[],
         ensures=["fresh(result) and result.scalar == scalar and result.empty == (len(scalar) == 0)",
                  "result.empty ==> not result.multiline",
                  # C15: any style other than double quotes is allowed only for text made of printable ASCII, line feeds and (with allow_unicode) printable unicode
                  "(result.allow_flow_plain or result.allow_block_plain or result.allow_single_quoted or result.allow_block) ==> forall(j, 0, len(scalar), okc(self, scalar[j]))",
                  # C02/C12: plain style is allowed only for text without line breaks (what write_plain relies on)
                  "(result.allow_flow_plain or result.allow_block_plain) ==> forall(j, 0, len(scalar), scalar[j] not in %s)" % BRK,
                  "not result.multiline ==> forall(j, 0, len(scalar), scalar[j] not in %s)" % BRK,
                  "(result.allow_flow_plain or result.allow_block_plain) ==> nobreaks(scalar)", "an_typed(result)"],
         labels={0: 'analysis-of-this-text', 1: 'empty-is-single-line', 2: 'non-double-quoted-styles-only-for-printable-text', 3: 'plain-only-without-line-breaks', 4: 'multiline-flag-sound',
                 5: 'plain-only-without-line-breaks-as-predicate', 6: 'flags-are-booleans'},
         axioms=["forall(j, 0, len(scalar), scalar[j] not in %s) ==> nobreaks(scalar)" % BRK],
         # lemmas placed right after the two classification statements of the loop body (the state is still simple there)
         cuts=[("if not (ch == '\\n' or ' ' <= ch <= '~'):", ["ch == scalar[index] and 0 <= index and index < len(scalar) and len(ch) == 1", "not special_characters ==> okc(self, ch)",
                                                               "not special_characters ==> forall(j, 0, index, okc(self, scalar[j]))"]),
               ("if ch in '\\n\\x85\\u2028\\u2029':\n    line_breaks = True", ["not line_breaks ==> ch not in %s" % BRK, "not line_breaks ==> forall(j, 0, index, scalar[j] not in %s)" % BRK])],
         invariants={0: _AS_INV}, modifies=[], raises=[])

define('an_typed', ['a'], "typeis(a.allow_flow_plain, 'bool') and typeis(a.allow_block_plain, 'bool') and typeis(a.scalar, 'str')")
define('analysis_ok', ['s'], "s.analysis is None or (an_typed(s.analysis) and ((s.analysis.allow_flow_plain or s.analysis.allow_block_plain) ==> nobreaks(s.analysis.scalar)))")
define('style_ok', ['s'], "(s.style is None or s.style in ['', chr(39), chr(34), '|', '>']) and (s.style == '' ==> (s.analysis is not None and (s.analysis.allow_flow_plain or s.analysis.allow_block_plain)))")
define('is_node_event', ['e'], "typeis(e, 'obj:yaml.events.NodeEvent')")
define('ev_ok', ['e'], "(typeis(e, 'obj:yaml.events.NodeEvent') ==> (e.anchor is None or typeis(e.anchor, 'str'))) and "
                         # the abstract event classes have no direct instances: a collection start is a sequence start or a mapping start
                         "(typeis(e, 'obj:yaml.events.CollectionStartEvent') ==> (typeis(e, 'obj:yaml.events.SequenceStartEvent') or typeis(e, 'obj:yaml.events.MappingStartEvent'))) and "
                         "((typeis(e, 'obj:yaml.events.ScalarEvent') or typeis(e, 'obj:yaml.events.CollectionStartEvent')) ==> (as_(e, 'obj:yaml.events.ScalarEvent').tag is None or typeis(as_(e, 'obj:yaml.events.ScalarEvent').tag, 'str'))) and "
                         "(typeis(e, 'obj:yaml.events.ScalarEvent') ==> (typeis(as_(e, 'obj:yaml.events.ScalarEvent').value, 'str') and typeis(as_(e, 'obj:yaml.events.ScalarEvent').implicit, 'tuple') and len(as_(e, 'obj:yaml.events.ScalarEvent').implicit) == 2 "
                         "and (as_(e, 'obj:yaml.events.ScalarEvent').style is None or as_(e, 'obj:yaml.events.ScalarEvent').style in ['', chr(39), chr(34), '|', '>'])))")

contract(E + 'process_anchor', props=['C05'],
    params={'indicator': 'str'},
    requires=["inv_pos(self)", "is_node_event(self.event)", "ev_ok(self.event)", "inv_prep(self)"],
    ensures=["inv_pos(self)", "self.prepared_anchor is None",
             "as_(self.event, 'obj:yaml.events.NodeEvent').anchor is None ==> LOG(self) == old(LOG(self))",
             "as_(self.event, 'obj:yaml.events.NodeEvent').anchor is not None ==> len(LOG(self)) == old(len(LOG(self))) + 1"],
    labels={0: 'inv_pos', 1: 'prepared-anchor-consumed', 2: 'no-anchor-no-output', 3: 'anchor-written-once'},
    modifies=['self.prepared_anchor', 'self.whitespace', 'self.indention', 'self.column', 'self.open_ended'] + OUT, raises=[EERR] + ENCERR, raises_any=True)

contract(E + 'choose_scalar_style', props=['C02', 'C08', 'C05'], max_paths=2000,
    requires=["typeis(self.event, 'obj:yaml.events.ScalarEvent')", "ev_ok(self.event)", "analysis_ok(self)"],
    result='str',
    ensures=[
        "result == '' or result == '\"' or result == \"'\" or result == '|' or result == '>'",
        # C08/C02: a scalar is written plain only if the event says the tag can be re-derived from the plain text,
        # no style was asked for, and the analysis allows plain text in the current context
        "result == '' ==> (as_(self.event, 'obj:yaml.events.ScalarEvent').implicit[0] and not as_(self.event, 'obj:yaml.events.ScalarEvent').style and not self.canonical)",
        "result == '' ==> ((self.flow_level != 0 and self.analysis.allow_flow_plain) or (self.flow_level == 0 and self.analysis.allow_block_plain))",
        "result == '' ==> not (self.simple_key_context and (self.analysis.empty or self.analysis.multiline))",
        "(result == '|' or result == '>') ==> (self.analysis.allow_block and self.flow_level == 0 and not self.simple_key_context and not self.canonical)",
        "result == \"'\" ==> (self.analysis.allow_single_quoted and not (self.simple_key_context and self.analysis.multiline) and not self.canonical)",
        "self.analysis is not None", "analysis_ok(self)",
    ],
    labels={0: 'one-of-five-styles', 1: 'plain-needs-implicit-and-no-style-request', 2: 'plain-needs-analysis-permission', 3: 'plain-key-is-single-line-nonempty',
            4: 'block-style-permission', 5: 'single-quoted-permission', 6: 'analysis-available', 7: 'analysis_ok'},
    modifies=['self.analysis'], raises=[])

contract(E + 'process_tag', props=['C05', 'C02', 'C08'], max_paths=2000,
    requires=["inv_pos(self)", "typeis(self.event, 'obj:yaml.events.ScalarEvent') or typeis(self.event, 'obj:yaml.events.CollectionStartEvent')", "ev_ok(self.event)",
              "inv_prefixes(self)", "inv_prep(self)", "analysis_ok(self)", "style_ok(self)"],
    ensures=["inv_pos(self)",
             # C05: whatever check_simple_key prepared for this node is consumed here, on every path
             "self.prepared_tag is None",
             # C02/C08: the tag is left out only when the event says the loader re-derives it for the style that is used
             "(typeis(self.event, 'obj:yaml.events.ScalarEvent') and LOG(self) == old(LOG(self))) ==> "
             "((self.style == '' and as_(self.event, 'obj:yaml.events.ScalarEvent').implicit[0]) or (self.style != '' and as_(self.event, 'obj:yaml.events.ScalarEvent').implicit[1]))",
             "typeis(self.event, 'obj:yaml.events.ScalarEvent') ==> self.style is not None",
             "len(LOG(self)) <= old(len(LOG(self))) + 1",
             "analysis_ok(self)", "style_ok(self)",
             "not typeis(self.event, 'obj:yaml.events.ScalarEvent') ==> (self.style is old(self.style) and self.analysis is old(self.analysis))"],
    labels={0: 'inv_pos', 1: 'prepared-tag-consumed', 2: 'tag-elided-only-when-implicit-for-the-style', 3: 'style-chosen', 4: 'at-most-one-chunk',
            5: 'analysis_ok', 6: 'style_ok', 7: 'collections-leave-the-scalar-scratch-alone'},
    modifies=['self.prepared_tag', 'self.style', 'self.analysis', 'self.whitespace', 'self.indention', 'self.column', 'self.open_ended'] + OUT,
    raises=[EERR] + ENCERR, raises_any=True)

contract(E + 'expect_nothing', props=['C05'], requires=[], ensures=["False"], labels={0: 'always-raises'}, modifies=[], raises=[EERR])

# ---- C12 / C15 / C11: document boundaries
# ---- C05: the preparers reject bad input with EmitterError only, for arbitrary text
contract(E + 'prepare_version', props=['C05', 'C12'],
    requires=["typeis(version, 'tuple') and len(version) == 2 and typeis(version[0], 'int') and typeis(version[1], 'int')"], result='str',
    ensures=["version[0] == 1"], labels={0: 'only-version-1-is-written'}, modifies=[], raises=[EERR])
contract(E + 'prepare_tag_handle', props=['C05', 'C12'], params={'handle': 'str'}, result='str',
    requires=[], ensures=["result == handle and len(handle) >= 1 and handle[0] == '!' and handle[len(handle) - 1] == '!'"],
    labels={0: 'handle-is-bang-delimited'}, invariants={0: ["typeis(handle, 'str')"]}, modifies=[], raises=[EERR])
contract(E + 'prepare_tag_prefix', props=['C05', 'C12'], params={'prefix': 'str'}, result='str',
    requires=[], ensures=["len(prefix) > 0"], labels={0: 'prefix-not-empty'},
    invariants={0: ["typeis(prefix, 'str') and typeis(chunks, 'list') and fresh(chunks) and 0 <= start and start <= end and end <= len(prefix)",
                    "forall(j, 0, len(chunks), typeis(chunks[j], 'str'))"],
                1: ["typeis(prefix, 'str') and typeis(chunks, 'list') and fresh(chunks) and 0 <= start and start <= end and end <= len(prefix)",
                    "forall(j, 0, len(chunks), typeis(chunks[j], 'str'))"]},
    modifies=[], raises=[EERR])

define('doc_ok', ['e'], "typeis(e, 'obj:yaml.events.DocumentStartEvent') ==> ("
       "(as_(e, 'obj:yaml.events.DocumentStartEvent').version is None or (typeis(as_(e, 'obj:yaml.events.DocumentStartEvent').version, 'tuple') and len(as_(e, 'obj:yaml.events.DocumentStartEvent').version) == 2 "
       "and typeis(as_(e, 'obj:yaml.events.DocumentStartEvent').version[0], 'int') and typeis(as_(e, 'obj:yaml.events.DocumentStartEvent').version[1], 'int'))) and "
       "(as_(e, 'obj:yaml.events.DocumentStartEvent').tags is None or (typeis(as_(e, 'obj:yaml.events.DocumentStartEvent').tags, 'dict') and sortable_keys(as_(e, 'obj:yaml.events.DocumentStartEvent').tags) and "
       "forall_v(k, haskey(as_(e, 'obj:yaml.events.DocumentStartEvent').tags, k) ==> (typeis(k, 'str') and typeis(dget(as_(e, 'obj:yaml.events.DocumentStartEvent').tags, k), 'str'))))))")

contract(E + 'check_empty_document', props=['C12'],
    requires=["len(self.events) > 0 ==> ev_ok(self.events[0])"], result='bool',
    ensures=["result ==> (typeis(self.event, 'obj:yaml.events.DocumentStartEvent') and len(self.events) > 0 and typeis(self.events[0], 'obj:yaml.events.ScalarEvent'))"],
    labels={0: 'only-for-an-empty-plain-root-scalar'}, modifies=[], raises=[])

_WR = ['self.whitespace', 'self.indention', 'self.column', 'self.line', 'self.open_ended'] + OUT
_DSE = "as_(self.event, 'obj:yaml.events.DocumentStartEvent')"
_DIRECTIVES = "(%s.version is not None or (%s.tags is not None and len(%s.tags) > 0))" % (_DSE, _DSE, _DSE)
_CM0 = "(typeis(self.event, 'obj:yaml.events.DocumentStartEvent') and old(self.open_ended) and %s)" % _DIRECTIVES
_MARKER_FIRST = ("(len(LOG(self)) > old(len(LOG(self))) and (LOG(self)[old(len(LOG(self)))] == ENC(self, '...') or LOG(self)[old(len(LOG(self)))] == ENC(self, ' ...')))")
_CM = "%s ==> %s" % (_CM0, _MARKER_FIRST)
contract(E + 'expect_document_start', props=['C12', 'C15', 'C11', 'C05'], max_paths=8,
    params={'first': 'bool'},
    requires=["inv_pos(self)", "doc_ok(self.event)", "len(self.events) > 0 ==> ev_ok(self.events[0])"],
    ensures=[
        "inv_pos(self)",
        "typeis(self.event, 'obj:yaml.events.DocumentStartEvent') or typeis(self.event, 'obj:yaml.events.StreamEndEvent')",
        "typeis(self.event, 'obj:yaml.events.DocumentStartEvent') ==> self.state == func('expect_document_root')",
        "typeis(self.event, 'obj:yaml.events.StreamEndEvent') ==> self.state == func('expect_nothing')",
        # C11/C12/C15: the tag prefixes of a document are rebuilt from the defaults plus this document's own %TAG lines
        "typeis(self.event, 'obj:yaml.events.DocumentStartEvent') ==> (fresh(self.tag_prefixes) and haskey(self.tag_prefixes, '!') and haskey(self.tag_prefixes, 'tag:yaml.org,2002:'))",
    ],
    labels={0: 'inv_pos', 1: 'accepts-only-document-start-or-stream-end', 2: 'next-is-the-root-node', 3: 'stream-end-is-final',
            4: 'tag-prefixes-rebuilt-per-document'},
    # C12/C05: a document left open-ended (plain root scalar, keep-chomped block scalar) is closed with '...' BEFORE any %YAML / %TAG
    # line of the next document and before the end of the stream -- otherwise the directive would be read as content of the scalar.
    # Stated as lemmas at the program point in front of the directives (cut 1) and in front of the stream end (cut 2); cut 0: the
    # marker is the first chunk this call writes (stated over the log itself: no uninterpreted occurrence predicate is involved)
    cuts=[("self.write_indicator('...', True)", [_MARKER_FIRST]),
          (r"re:^if .*\bself\.open_ended:$", [_CM]),      # both `if`s that test open_ended (the clause is vacuous at the other one)
          ("if self.open_ended:", ["(typeis(self.event, 'obj:yaml.events.StreamEndEvent') and old(self.open_ended)) ==> %s" % _MARKER_FIRST])],
    invariants={0: ["inv_pos(self)", "fresh(self.tag_prefixes) and haskey(self.tag_prefixes, '!') and haskey(self.tag_prefixes, 'tag:yaml.org,2002:')",
                    "doc_ok(self.event)", "typeis(self.event, 'obj:yaml.events.DocumentStartEvent')", "self.state is old(self.state)",
                    "self.canonical is old(self.canonical) and self.event is old(self.event)"]},
    modifies=_WR + ['self.tag_prefixes', 'self.tag_prefixes[]', 'self.state'], raises=[EERR, 'TypeError', 'ValueError'] + ENCERR, raises_any=True)

contract(E + 'expect_first_document_start', props=['C12', 'C15'],
    requires=["inv_pos(self)", "doc_ok(self.event)", "len(self.events) > 0 ==> ev_ok(self.events[0])"],
    ensures=["inv_pos(self)", "typeis(self.event, 'obj:yaml.events.DocumentStartEvent') or typeis(self.event, 'obj:yaml.events.StreamEndEvent')"],
    labels={0: 'inv_pos', 1: 'accepts-only-document-start-or-stream-end'},
    modifies=_WR + ['self.tag_prefixes', 'self.tag_prefixes[]', 'self.state'], raises=[EERR, 'TypeError', 'ValueError'] + ENCERR, raises_any=True)

contract(E + 'expect_document_end', props=['C12', 'C15'],
    requires=["inv_pos(self)"],
    ensures=["inv_pos(self)", "typeis(self.event, 'obj:yaml.events.DocumentEndEvent')", "self.state == func('expect_document_start')",
             # C15: explicit_end produces the '...' marker
             "as_(self.event, 'obj:yaml.events.DocumentEndEvent').explicit ==> (has_chunk(LOG(self), old(len(LOG(self))), ENC(self, '...')) or has_chunk(LOG(self), old(len(LOG(self))), ENC(self, ' ...')))",
             "prefix_of(old(LOG(self)), LOG(self))"],
    labels={0: 'inv_pos', 1: 'accepts-only-document-end', 2: 'next-document-is-never-first', 3: 'document-end-marker-written', 4: 'append-only'},
    axioms=[_has_chunk_lemmas],
    # the marker is the last chunk right after it is written; later writes only append
    cuts=[("self.write_indicator('...', True)", ["has_chunk(LOG(self), old(len(LOG(self))), ENC(self, '...')) or has_chunk(LOG(self), old(len(LOG(self))), ENC(self, ' ...'))",
                                                 "prefix_of(old(LOG(self)), LOG(self))"])],
    modifies=_WR + ['self.state'], raises=[EERR] + ENCERR, raises_any=True)

contract(E + 'expect_stream_start', props=['C05', 'C15'],
    requires=["heapobj(self.stream.g_log)", "typeis(self.event, 'obj:yaml.events.StreamStartEvent') ==> (as_(self.event, 'obj:yaml.events.StreamStartEvent').encoding is None or typeis(as_(self.event, 'obj:yaml.events.StreamStartEvent').encoding, 'str'))"],
    ensures=["typeis(self.event, 'obj:yaml.events.StreamStartEvent')", "self.state == func('expect_first_document_start')", "prefix_of(old(LOG(self)), LOG(self))"],
    labels={0: 'accepts-only-stream-start', 1: 'next-is-the-first-document', 2: 'append-only'},
    modifies=['self.encoding', 'self.state'] + OUT, raises=[EERR] + ENCERR, raises_any=True)

# ---- C12: a plain scalar at the root leaves the document open-ended (so that '...' is written before any directive)
_WP_INV = ["inv_pos(self)", "old(self.root_context) ==> self.open_ended",
           "typeis(text, 'str') and end >= 0 and start >= 0 and start <= end"]
contract(E + 'write_plain', props=['C12', 'C15'], max_paths=6,
    params={'text': 'str', 'split': 'bool'},
    # plain style is only chosen for texts without line breaks (choose_scalar_style + analyze_scalar)
    requires=["inv_pos(self)", "nobreaks(text)"], axioms=["nobreaks(text) ==> forall(i, 0, len(text), text[i] not in %s)" % BRK],
    ensures=["inv_pos(self)", "old(self.root_context) ==> self.open_ended",
             "not old(self.root_context) ==> self.open_ended == old(self.open_ended)"],
    labels={0: 'inv_pos', 1: 'root-plain-scalar-is-open-ended', 2: 'flag-untouched-elsewhere'}, dead_loops=[1],
    invariants={0: _WP_INV + ["end <= len(text) + 1", "breaks == False", "not old(self.root_context) ==> self.open_ended == old(self.open_ended)"],
                1: _WP_INV + ["end <= len(text)", "not old(self.root_context) ==> self.open_ended == old(self.open_ended)"]},
    modifies=['self.whitespace', 'self.indention', 'self.column', 'self.line', 'self.open_ended'] + OUT, raises=ENCERR, raises_any=True)

# ---- C05: simple-key eligibility
contract(E + 'check_empty_sequence', props=['C05'], requires=[], result='any',
    ensures=["result ==> (typeis(self.event, 'obj:yaml.events.SequenceStartEvent') and len(self.events) > 0 and typeis(self.events[0], 'obj:yaml.events.SequenceEndEvent'))"],
    labels={0: 'only-for-start-immediately-followed-by-end'}, modifies=[], raises=[])
contract(E + 'check_empty_mapping', props=['C05'], requires=[], result='any',
    ensures=["result ==> (typeis(self.event, 'obj:yaml.events.MappingStartEvent') and len(self.events) > 0 and typeis(self.events[0], 'obj:yaml.events.MappingEndEvent'))"],
    labels={0: 'only-for-start-immediately-followed-by-end'}, modifies=[], raises=[])
contract(E + 'check_simple_key', props=['C05', 'C02'],
    requires=["ev_ok(self.event)", "inv_prep(self)", "inv_prefixes(self)", "self.analysis is None"],
    result='any',
    ensures=["inv_prep(self)", "analysis_ok(self)", "not typeis(self.event, 'obj:yaml.events.ScalarEvent') ==> self.analysis is None",
             # C05: a key is written as a simple key only if anchor + tag + text are shorter than 128 characters and it is one line
             "result ==> ((typeis(self.event, 'obj:yaml.events.AliasEvent') or typeis(self.event, 'obj:yaml.events.ScalarEvent') or typeis(self.event, 'obj:yaml.events.CollectionStartEvent')))",
             "(result and typeis(self.event, 'obj:yaml.events.ScalarEvent')) ==> (self.analysis is not None and not self.analysis.empty and not self.analysis.multiline and len(self.analysis.scalar) < 128)",
             "(result and is_node_event(self.event) and as_(self.event, 'obj:yaml.events.NodeEvent').anchor is not None) ==> (self.prepared_anchor is not None and len(self.prepared_anchor) < 128)",
             "(result and (typeis(self.event, 'obj:yaml.events.ScalarEvent') or typeis(self.event, 'obj:yaml.events.CollectionStartEvent')) and as_(self.event, 'obj:yaml.events.ScalarEvent').tag is not None) "
             "==> (self.prepared_tag is not None and len(self.prepared_tag) < 128)"],
    labels={0: 'inv_prep', 1: 'analysis_ok', 2: 'analysis-only-for-scalars', 3: 'only-node-events', 4: 'scalar-key-is-short-single-line-non-empty', 5: 'anchor-counted', 6: 'tag-counted'},
    modifies=['self.prepared_anchor', 'self.prepared_tag', 'self.analysis'], raises=[EERR])


# ================================================================================================ C05: the emitter state machine
# For every expect_* state, every event and every well-typed continuation stack: the function either moves to a well-typed next
# configuration or raises EmitterError (or what the caller's stream raises); states.pop() / indents.pop() are never applied to an
# empty stack.  EST (emitter stack typing, the analogue of the parser's PST):
#   kind OUT  (before/after/between documents, and the root before its continuation is pushed): states == [] and indents == []
#   kind IN   : states == [expect_document_end, collection continuations...] and len(indents) == number of open collections
#               = sum of weights of the stacked states + weight of the current state; every saved indent is None or an int;
#               flow_level == number of flow-collection states among the stacked states and the current one.
K_OUT, INN = 0, 2
ESTATES = {
    'expect_stream_start': (K_OUT, 0), 'expect_nothing': (K_OUT, 0), 'expect_first_document_start': (K_OUT, 0), 'expect_document_start': (K_OUT, 0),
    'expect_document_root': (K_OUT, 0), 'expect_document_end': (K_OUT, 0),
    'expect_first_flow_sequence_item': (INN, 1), 'expect_flow_sequence_item': (INN, 1),
    'expect_first_flow_mapping_key': (INN, 1), 'expect_flow_mapping_key': (INN, 1), 'expect_flow_mapping_simple_value': (INN, 1), 'expect_flow_mapping_value': (INN, 1),
    'expect_first_block_sequence_item': (INN, 1), 'expect_block_sequence_item': (INN, 1),
    'expect_first_block_mapping_key': (INN, 1), 'expect_block_mapping_key': (INN, 1), 'expect_block_mapping_simple_value': (INN, 1), 'expect_block_mapping_value': (INN, 1),
}
ECOLL = ['expect_flow_sequence_item', 'expect_flow_mapping_key', 'expect_flow_mapping_simple_value', 'expect_flow_mapping_value',
         'expect_block_sequence_item', 'expect_block_mapping_key', 'expect_block_mapping_simple_value', 'expect_block_mapping_value']
e_kind = z3.Function('est_kind', V, z3.IntSort())
e_w = z3.Function('est_w', V, z3.IntSort())
e_coll = z3.Function('est_coll', V, z3.BoolSort())
e_sum = z3.Function('est_sum', SeqV, z3.IntSort())
e_ok = z3.Function('est_okstk', SeqV, z3.BoolSort())
e_fw = z3.Function('est_fw', V, z3.IntSort())             # 1 for the states of an open flow collection, else 0
e_fsum = z3.Function('est_fsum', SeqV, z3.IntSort())
e_ints = z3.Function('est_ints', SeqV, z3.BoolSort())     # every saved indent is None or a non-negative int
EFLOW = ['expect_first_flow_sequence_item', 'expect_flow_sequence_item', 'expect_first_flow_mapping_key', 'expect_flow_mapping_key',
         'expect_flow_mapping_simple_value', 'expect_flow_mapping_value']


def eref(ex, name):
    return mk_r(ex.w.static('method:' + name))


def emitter_tables(cx):
    ex = cx.ex
    s = z3.Const('es_s', SeqV)
    x = z3.Const('es_x', V)
    D = eref(ex, 'expect_document_end')
    facts = [z3.And(e_kind(eref(ex, n)) == k, e_w(eref(ex, n)) == w, e_coll(eref(ex, n)) == (n in ECOLL), e_fw(eref(ex, n)) == (1 if n in EFLOW else 0))
             for n, (k, w) in ESTATES.items()]
    return z3.And(*facts,
                  z3.ForAll([x], z3.Or(e_fw(x) == 0, e_fw(x) == 1), patterns=[e_fw(x)]),
                  e_fsum(z3.Empty(SeqV)) == 0,
                  z3.ForAll([s, x], e_fsum(z3.Concat(s, z3.Unit(x))) == e_fsum(s) + e_fw(x), patterns=[e_fsum(z3.Concat(s, z3.Unit(x)))]),
                  z3.ForAll([x], e_fsum(z3.Unit(x)) == e_fw(x), patterns=[e_fsum(z3.Unit(x))]),
                  z3.ForAll([s], e_fsum(s) >= 0, patterns=[e_fsum(s)]),     # lemma: induction on the stack, weights are 0/1
                  e_ints(z3.Empty(SeqV)),
                  z3.ForAll([s, x], e_ints(z3.Concat(s, z3.Unit(x))) == z3.And(e_ints(s), z3.Or(V.is_none(x), z3.And(V.is_i(x), iv(x) >= 0))), patterns=[e_ints(z3.Concat(s, z3.Unit(x)))]),
                  z3.ForAll([x], e_ints(z3.Unit(x)) == z3.Or(V.is_none(x), z3.And(V.is_i(x), iv(x) >= 0)), patterns=[e_ints(z3.Unit(x))]),
                  z3.ForAll([x], z3.Implies(e_coll(x), z3.And(e_kind(x) == INN, is_r(x), rv(x) < 0, e_w(x) == 1, x != D)), patterns=[e_coll(x)]),
                  e_sum(z3.Empty(SeqV)) == 0,
                  z3.ForAll([s, x], e_sum(z3.Concat(s, z3.Unit(x))) == e_sum(s) + e_w(x), patterns=[e_sum(z3.Concat(s, z3.Unit(x)))]),
                  z3.ForAll([x], e_sum(z3.Unit(x)) == e_w(x), patterns=[e_sum(z3.Unit(x))]),
                  z3.ForAll([s], e_sum(s) >= 0, patterns=[e_sum(s)]),       # lemma: induction on the stack, weights are 0/1
                  z3.Not(e_ok(z3.Empty(SeqV))),
                  z3.ForAll([x], e_ok(z3.Unit(x)) == (x == D), patterns=[e_ok(z3.Unit(x))]),
                  z3.ForAll([s, x], z3.Implies(z3.Length(s) >= 1, e_ok(z3.Concat(s, z3.Unit(x))) == z3.And(e_ok(s), e_coll(x))), patterns=[e_ok(z3.Concat(s, z3.Unit(x)))]),
                  z3.ForAll([s], z3.Implies(e_ok(s), z3.Length(s) >= 1), patterns=[e_ok(s)]))


emitter_tables.__name__ = 'definitions: kind/weight/stackability of every emitter state; est_sum, est_okstk by recursion on the stack'


def _estacks(cx):
    ex, st = cx.ex, cx.st
    me = st.env['self']
    sl, il = ex.get_field(st, me, 'states'), ex.get_field(st, me, 'indents')
    return ex.seq_of(st, sl), ex.seq_of(st, il), sl.t, il.t


def _lists_distinct(cx):
    """states, indents and events are three different heap lists (and none of them is the ghost output log)"""
    ex, st = cx.ex, cx.st
    me = st.env['self']
    refs = [rv(ex.get_field(st, me, n).t) for n in ('states', 'indents', 'events')]
    log = rv(cx.ev('self.stream.g_log').t)
    return z3.And(z3.Distinct(*(refs + [log])), *[r >= 0 for r in refs])


def est_for(cx, cur, pending=0):
    """stack typing for current state value `cur`; pending=1: a node is about to be emitted (continuation already pushed)"""
    states, indents, sl, il = _estacks(cx)
    base = _lists_distinct(cx)
    fl = iv(cx.ev('self.flow_level').t)
    inside = z3.And(e_ok(states), z3.Length(indents) == e_sum(states) + e_w(cur), e_ints(indents), fl == e_fsum(states) + e_fw(cur))
    outside = z3.And(z3.Length(states) == 0, z3.Length(indents) == 0, fl == 0)
    known = z3.And(z3.Or(e_kind(cur) == K_OUT, e_kind(cur) == INN), is_r(cur), rv(cur) < 0)
    return z3.And(base, known, z3.Implies(e_kind(cur) == INN, inside), z3.Implies(e_kind(cur) == K_OUT, outside))


def est(name):
    def f(cx):
        return est_for(cx, eref(cx.ex, name))
    f.__name__ = 'EST: stack typing for current state %s' % name
    return f


def est_after(cx):
    return est_for(cx, cx.ev('self.state').t)


est_after.__name__ = 'EST holds for the new current state'


def est_node_pending(cx):
    """a node is about to be emitted: its continuation is on top of a well-typed stack and owns no indent of its own yet"""
    states, indents, sl, il = _estacks(cx)
    return z3.And(_lists_distinct(cx), e_ok(states), z3.Length(indents) == e_sum(states), e_ints(indents), iv(cx.ev('self.flow_level').t) == e_fsum(states))


est_node_pending.__name__ = 'EST: a node is pending (continuation pushed, indents match the open collections)'

EREQ = ["inv_pos(self)", "ev_ok(self.event)", "inv_prep(self)", "inv_prefixes(self)", "self.flow_level >= 0",
        "self.analysis is None and self.style is None", "len(self.events) > 0 ==> ev_ok(self.events[0])"]
NREQ = ["inv_pos(self)", "ev_ok(self.event)", "inv_prep(self)", "inv_prefixes(self)", "self.flow_level >= 0",
        "analysis_ok(self) and self.style is None and (not typeis(self.event, 'obj:yaml.events.ScalarEvent') ==> self.analysis is None)",
        "len(self.events) > 0 ==> ev_ok(self.events[0])"]
EENS = ["inv_pos(self)", est_after, "inv_prep(self)", "inv_prefixes(self)", "self.flow_level >= 0", "self.analysis is None and self.style is None"]
ELBL = {0: 'inv_pos', 1: 'stack-typing-preserved', 2: 'inv_prep', 3: 'inv_prefixes', 4: 'flow-level-non-negative', 5: 'scalar-scratch-cleared'}
EMOD = ['self.state', 'self.states[]', 'self.indents[]', 'self.indent', 'self.flow_level', 'self.root_context', 'self.sequence_context', 'self.mapping_context',
        'self.simple_key_context', 'self.whitespace', 'self.indention', 'self.column', 'self.line', 'self.open_ended', 'self.prepared_anchor', 'self.prepared_tag',
        'self.analysis', 'self.style'] + OUT
ERAISE = [EERR] + ENCERR

# ---- C02 / C15: what write_double_quoted copies verbatim.  Everything that is not `dqsafe` must leave the loop through the escape
# branch: the quote and the backslash, NEL / LS / PS (a raw line break inside the quotes would be folded by the scanner), the BOM,
# everything outside printable ASCII unless allow_unicode is on, and with allow_unicode everything outside the two BMP ranges.
# Stated as lemmas at the two places where a slice of the text is written (cut points) plus the loop invariant that carries them.
define('dqsafe', ['s', 'ch'], "(ch not in '\"\\\x85\u2028\u2029\ufeff') and ((' ' <= ch and ch <= '~') or "
                             "(s.allow_unicode and (('\xa0' <= ch and ch <= '\ud7ff') or ('\ue000' <= ch and ch <= '\ufffd'))))")
import os as _os0
_DQ_INV = ["inv_pos(self)", "typeis(text, 'str') and 0 <= start and start <= end + 1 and end <= len(text) + 1",
           "forall(j, start, end, j < len(text) ==> dqsafe(self, text[j]))"]
_DQ_CONTRACT = dict(props=['C02', 'C15', 'C05'], max_paths=int(_os0.environ.get('DQ_MP', '2')), params={'text': 'str', 'split': 'bool'},
         requires=["inv_pos(self)"], ensures=["inv_pos(self)"], labels={0: 'inv_pos'},
         invariants={0: _DQ_INV},
         cuts=[("data = text[start:end]", ["forall(j, 0, end - start, j < len(data) ==> dqsafe(self, data[j]))"])],
         modifies=['self.whitespace', 'self.indention', 'self.column', 'self.line', 'self.open_ended'] + OUT,
         raises=ENCERR, raises_any=True)
import os as _os
if _os.environ.get('PYVC_EXPERIMENT_DQ'):
    contract(E + 'write_double_quoted', **_DQ_CONTRACT)
elif _os.environ.get('PYVC_DQ_LIGHT'):
    # indices, position bookkeeping, frame and exception class only (the character-class invariant above did not discharge within budget)
    contract(E + 'write_double_quoted', **dict(_DQ_CONTRACT, invariants={0: _DQ_INV[:2]}, cuts=[], max_paths=6))
for _w in (['write_single_quoted'] if _os.environ.get('PYVC_NO_BLOCK_WRITERS') else []) + ([] if (_os.environ.get('PYVC_EXPERIMENT_DQ') or _os.environ.get('PYVC_DQ_LIGHT')) else ['write_double_quoted']):
    contract(E + _w, trusted=True, why='scalar writer loop: only its frame and inv_pos are used by the state-machine contracts', params={'text': 'str'},
             requires=["inv_pos(self)"], ensures=["inv_pos(self)"], modifies=['self.whitespace', 'self.indention', 'self.column', 'self.line', 'self.open_ended'] + OUT,
             raises=ENCERR, raises_any=True)
# ---- C15: "every CR/LF line break in the output is the requested line_break": the block-scalar writers hand a line break of the text
# to write_line_break only when it is not a line feed (a line feed becomes write_line_break() = the effective break); that is the
# precondition of write_line_break, proved at every call site of the writers under contract.  Loop invariants: indices only.
_BW_INV = ["inv_pos(self)", "typeis(text, 'str') and 0 <= start and start <= end and end <= len(text) + 1"]
if not _os.environ.get('PYVC_NO_BLOCK_WRITERS'):
    contract(E + 'write_literal', props=['C15', 'C12', 'C05', 'C02'], params={'text': 'str'}, max_paths=int(_os.environ.get('BW_MP', '6')),
             requires=["inv_pos(self)"], ensures=["inv_pos(self)"], labels={0: 'inv_pos'},
             invariants={0: _BW_INV, 1: _BW_INV},
             modifies=['self.whitespace', 'self.indention', 'self.column', 'self.line', 'self.open_ended'] + OUT,
             raises=ENCERR, raises_any=True)
    contract(E + 'write_folded', props=['C15', 'C12', 'C05', 'C02'], params={'text': 'str'}, max_paths=int(_os.environ.get('BW_MP', '6')),
             requires=["inv_pos(self)"], ensures=["inv_pos(self)"], labels={0: 'inv_pos'},
             invariants={0: _BW_INV, 1: _BW_INV},
             modifies=['self.whitespace', 'self.indention', 'self.column', 'self.line', 'self.open_ended'] + OUT,
             raises=ENCERR, raises_any=True)
    contract(E + 'write_single_quoted', props=['C15', 'C12', 'C05', 'C02'], params={'text': 'str', 'split': 'bool'}, max_paths=int(_os.environ.get('BW_MP', '6')),
             requires=["inv_pos(self)"], ensures=["inv_pos(self)"], labels={0: 'inv_pos'},
             invariants={0: _BW_INV, 1: _BW_INV},
             modifies=['self.whitespace', 'self.indention', 'self.column', 'self.line', 'self.open_ended'] + OUT,
             raises=ENCERR, raises_any=True)
for _w in (['write_literal', 'write_folded'] if _os.environ.get('PYVC_NO_BLOCK_WRITERS') else []):
    contract(E + _w, trusted=True, why='scalar writer loop: only its frame and inv_pos are used by the state-machine contracts', params={'text': 'str'},
             requires=["inv_pos(self)"], ensures=["inv_pos(self)"], modifies=['self.whitespace', 'self.indention', 'self.column', 'self.line', 'self.open_ended'] + OUT,
             raises=ENCERR, raises_any=True)

contract(E + 'process_scalar', props=['C05'],
    requires=["inv_pos(self)", "typeis(self.event, 'obj:yaml.events.ScalarEvent')", "ev_ok(self.event)", "analysis_ok(self)", "style_ok(self)"],
    ensures=["inv_pos(self)", "self.analysis is None and self.style is None"], labels={0: 'inv_pos', 1: 'scalar-scratch-cleared'},
    modifies=['self.analysis', 'self.style', 'self.whitespace', 'self.indention', 'self.column', 'self.line', 'self.open_ended'] + OUT,
    raises=ENCERR, raises_any=True)


def estate(name, requires=(), extra_ens=(), extra_labels=None, params=None, **kw):
    labels = dict(ELBL)
    for k, v in (extra_labels or {}).items():
        labels[k + len(EENS)] = v
    contract(E + name, props=['C05', 'C12'], axioms=[emitter_tables], params=params or {},
             requires=EREQ + [est(name)] + list(requires), ensures=EENS + list(extra_ens), labels=labels, modifies=EMOD, raises=ERAISE, raises_any=True, **kw)


# helpers that are not states: they finish the node whose continuation is on top of the stack
for _n in ['expect_alias', 'expect_scalar']:
    contract(E + _n, props=['C05', 'C12'], axioms=[emitter_tables],
             requires=EREQ[:5] + [est_node_pending, "typeis(self.event, 'obj:yaml.events.%s')" % ('AliasEvent' if _n == 'expect_alias' else 'ScalarEvent'),
                                  "self.analysis is None and self.style is None" if _n == 'expect_alias' else "analysis_ok(self) and style_ok(self)"],
             ensures=EENS, labels=ELBL, modifies=EMOD, raises=ERAISE, raises_any=True)
for _n in ['expect_flow_sequence', 'expect_flow_mapping', 'expect_block_sequence', 'expect_block_mapping']:
    contract(E + _n, props=['C05', 'C12'], axioms=[emitter_tables],
             requires=EREQ + [est_node_pending], ensures=EENS, labels=ELBL, modifies=EMOD, raises=ERAISE, raises_any=True)
contract(E + 'expect_node', props=['C05', 'C12'], axioms=[emitter_tables], max_paths=6,
         params={'root': 'bool', 'sequence': 'bool', 'mapping': 'bool', 'simple_key': 'bool'},
         requires=NREQ + [est_node_pending],
         ensures=EENS + ["typeis(self.event, 'obj:yaml.events.AliasEvent') or typeis(self.event, 'obj:yaml.events.ScalarEvent') or typeis(self.event, 'obj:yaml.events.CollectionStartEvent')"],
         labels=dict(ELBL, **{6: 'accepts-only-node-events'}) if False else {0: 'inv_pos', 1: 'stack-typing-preserved', 2: 'inv_prep', 3: 'inv_prefixes', 4: 'flow-level-non-negative', 5: 'scalar-scratch-cleared', 6: 'accepts-only-node-events'},
         modifies=EMOD, raises=ERAISE, raises_any=True)

estate('expect_document_root')
for _n in ['expect_first_flow_sequence_item', 'expect_flow_sequence_item', 'expect_first_flow_mapping_key', 'expect_flow_mapping_key',
           'expect_flow_mapping_simple_value', 'expect_flow_mapping_value', 'expect_first_block_sequence_item',
           'expect_first_block_mapping_key', 'expect_block_mapping_simple_value', 'expect_block_mapping_value']:
    estate(_n)
for _n in ['expect_block_sequence_item', 'expect_block_mapping_key']:
    estate(_n, params={'first': 'bool'})

# the five document-level states carry EST too (kind OUT: empty stacks, flow_level 0): they do not touch the stacks, so this is their
# frame restated as the typing every node state relies on -- the chain "what a state ensures is what the state it installs requires"
# is then closed over all 18 states
from pyvc.spec import REG as _REG
for _n in ['expect_stream_start', 'expect_first_document_start', 'expect_document_start', 'expect_document_end']:
    _c = _REG.contracts[E + _n]
    _c.axioms = list(_c.axioms) + [emitter_tables]
    _c.requires.append(est(_n))
    _c.ensures.append(est_after)
    _c.labels[len(_c.ensures) - 1] = 'stack-typing-preserved'
    if 'C05' not in _c.props:
        _c.props.append('C05')
