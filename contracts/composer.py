"""Contracts for lib/yaml/composer.py (C13 anchors/aliases, C11 per-document reset, C03 composer part)."""
import z3
from pyvc.spec import contract, fields, define
from pyvc.z3v import *
from contracts.a_eventsource import wf_events, at_nodestart, at, epos_is_nend_of_old, _E, _is, nend, inseq, inmapk, inmapv, docat, SRC_RAISES

fields('yaml.nodes.Node', tag='any', value='any', start_mark='any', end_mark='any')
fields('yaml.nodes.ScalarNode', style='any')
fields('yaml.nodes.CollectionNode', flow_style='any', value='list')
fields('yaml.resolver.BaseResolver', resolver_exact_paths='list', resolver_prefix_paths='list')

P = ['C13', 'C11', 'C03']

define('inv_anchors', ['s'], "forall_v(k, haskey(s.anchors, k) ==> typeis(dget(s.anchors, k), 'obj:yaml.nodes.Node'))")
define('anchors_grow', ['s'], "forall_v(k, old(haskey(s.anchors, k)) ==> (haskey(s.anchors, k) and dget(s.anchors, k) is old(dget(s.anchors, k))))")
define('cur', ['s'], "EV(s)[s.g_epos]")
define('first', ['s'], "as_(EV(s)[old(s.g_epos)], 'obj:yaml.events.NodeEvent')")

RES_MOD = ['self.resolver_exact_paths[]', 'self.resolver_prefix_paths[]']

# ---- resolver hooks used by the composer: assumed here (C08 puts resolve() under its own contract)
contract('yaml.resolver.BaseResolver.descend_resolver', trusted=True, why='path-resolver bookkeeping: only its frame is used here',
         requires=[], ensures=[], modifies=RES_MOD, raises=[])
contract('yaml.resolver.BaseResolver.ascend_resolver', trusted=True, why='path-resolver bookkeeping: only its frame is used here',
         requires=[], ensures=[], modifies=RES_MOD, raises=[])
contract('yaml.resolver.BaseResolver.resolve', trusted=True, why='tag resolution: only "returns a tag, writes nothing" is used here',
         result='opt:str', requires=[], ensures=[], modifies=[], raises=[])


def at_docstart(cx):
    p = iv(cx.ev('self.g_epos').t)
    return z3.And(docat(p), _is(cx.ex, _E(cx)[p], 'DocumentStartEvent'))


def at_boundary(cx):
    return docat(iv(cx.ev('self.g_epos').t))


at_boundary.__name__ = 'the event position is a document boundary (DOCUMENT-START or STREAM-END comes next)'


def in_seq(cx):
    return inseq(iv(cx.ev('old(self.g_epos)').t), iv(cx.ev('self.g_epos').t))


def in_mapk(cx):
    return inmapk(iv(cx.ev('old(self.g_epos)').t), iv(cx.ev('self.g_epos').t))


COMMON_REQ = [wf_events, "inv_anchors(self)"]

contract('yaml.composer.Composer.compose_node', props=P,
    requires=COMMON_REQ + [at_nodestart],
    result='obj:yaml.nodes.Node',
    ensures=[
        epos_is_nend_of_old,
        "inv_anchors(self)",
        "anchors_grow(self)",
        # an alias IS the anchored node (identity), and is only accepted when the anchor is defined
        "typeis(first(self), 'obj:yaml.events.AliasEvent') ==> (old(haskey(self.anchors, first(self).anchor)) and result is old(dget(self.anchors, first(self).anchor)))",
        "typeis(first(self), 'obj:yaml.events.AliasEvent') ==> forall_v(k, haskey(self.anchors, k) == old(haskey(self.anchors, k)))",
        # any other node is a new object; a second definition of an anchor is not accepted; the anchor names the new node
        "not typeis(first(self), 'obj:yaml.events.AliasEvent') ==> fresh(result)",
        "(not typeis(first(self), 'obj:yaml.events.AliasEvent') and first(self).anchor is not None) ==> (not old(haskey(self.anchors, first(self).anchor)) and dget(self.anchors, first(self).anchor) is result and haskey(self.anchors, first(self).anchor))",
    ],
    labels={0: 'consumes-one-node', 1: 'inv_anchors', 2: 'existing-anchors-keep-their-node', 3: 'alias-is-identity-and-defined',
            4: 'alias-defines-nothing', 5: 'non-alias-is-fresh', 6: 'anchor-unique-and-bound-to-node'},
    modifies=['self.g_epos', 'self.anchors[]'] + RES_MOD,
    raises=SRC_RAISES)

contract('yaml.composer.Composer.compose_scalar_node', props=P,
    params={'anchor': 'opt:str'},
    requires=COMMON_REQ + [at('ScalarEvent'), "anchor is None or not haskey(self.anchors, anchor)"],
    result='obj:yaml.nodes.ScalarNode',
    ensures=[
        "self.g_epos == old(self.g_epos) + 1",
        "fresh(result) and exact(result, 'yaml.nodes.ScalarNode')",
        "result.value is first(self).value and result.start_mark is first(self).start_mark and result.end_mark is first(self).end_mark",
        "(as_(first(self), 'obj:yaml.events.ScalarEvent').tag is not None and as_(first(self), 'obj:yaml.events.ScalarEvent').tag != '!') ==> result.tag is as_(first(self), 'obj:yaml.events.ScalarEvent').tag",
        "inv_anchors(self)", "anchors_grow(self)",
        "anchor is not None ==> (haskey(self.anchors, anchor) and dget(self.anchors, anchor) is result)",
        "forall_v(k, k != anchor ==> haskey(self.anchors, k) == old(haskey(self.anchors, k)))",
    ],
    labels={0: 'consumes-one-event', 1: 'fresh-scalar-node', 2: 'value-and-marks-from-event', 3: 'explicit-tag-kept', 4: 'inv_anchors',
            5: 'existing-anchors-keep-their-node', 6: 'anchor-bound-to-node', 7: 'defines-only-its-anchor'},
    modifies=['self.g_epos', 'self.anchors[]'],
    raises=SRC_RAISES)

for _kind, _cls, _inv, _end in [('sequence', 'SequenceStartEvent', in_seq, 'SequenceEndEvent'), ('mapping', 'MappingStartEvent', in_mapk, 'MappingEndEvent')]:
    _node = 'yaml.nodes.%sNode' % _kind.capitalize()
    contract('yaml.composer.Composer.compose_%s_node' % _kind, props=P,
        params={'anchor': 'opt:str'},
        requires=COMMON_REQ + [at(_cls), "anchor is None or not haskey(self.anchors, anchor)"],
        result='obj:' + _node,
        ensures=[
            epos_is_nend_of_old,
            "fresh(result) and exact(result, '%s')" % _node,
            "inv_anchors(self)", "anchors_grow(self)",
            "anchor is not None ==> (haskey(self.anchors, anchor) and dget(self.anchors, anchor) is result)",
            "fresh(result.value)",
        ],
        labels={0: 'consumes-one-node', 1: 'fresh-collection-node', 2: 'inv_anchors', 3: 'existing-anchors-keep-their-node',
                4: 'anchor-bound-to-node', 5: 'fresh-children-list'},
        invariants={0: [
            _inv,
            "inv_anchors(self)", "anchors_grow(self)",
            # the node is registered under its anchor BEFORE any child is composed: a child alias to it yields the node itself
            "anchor is not None ==> (haskey(self.anchors, anchor) and dget(self.anchors, anchor) is node)",
            "fresh(node) and exact(node, '%s') and fresh(node.value) and typeis(node.value, 'list')" % _node,
        ]},
        modifies=['self.g_epos', 'self.anchors[]'] + RES_MOD,
        raises=SRC_RAISES)

contract('yaml.composer.Composer.compose_document', props=P,
    requires=COMMON_REQ + [at_docstart],
    result='obj:yaml.nodes.Node',
    ensures=[
        at_boundary,
        # C11/C13: anchors of one document are not visible in the next
        "len(self.anchors) == 0 and fresh(self.anchors)",
        "inv_anchors(self)",
    ],
    labels={0: 'stops-at-document-boundary', 1: 'anchors-reset-after-document', 2: 'inv_anchors'},
    modifies=['self.g_epos', 'self.anchors', 'self.anchors[]'] + RES_MOD,
    raises=SRC_RAISES)

contract('yaml.composer.Composer.check_node', props=P,
    requires=COMMON_REQ + [lambda cx: z3.Or(iv(cx.ev('self.g_epos').t) == 0, at_boundary(cx))],
    result='bool',
    ensures=[at_boundary, lambda cx: bv(cx.result.t) == z3.Not(_is(cx.ex, _E(cx)[iv(cx.ev('self.g_epos').t)], 'StreamEndEvent'))],
    labels={0: 'at-document-boundary', 1: 'true-iff-a-document-follows'},
    modifies=['self.g_epos'], raises=SRC_RAISES)

contract('yaml.composer.Composer.get_node', props=P,
    requires=COMMON_REQ + [at_boundary],
    result='opt:obj:yaml.nodes.Node',
    ensures=[at_boundary, "len(self.anchors) == 0 or self.g_epos == old(self.g_epos)", "inv_anchors(self)"],
    labels={0: 'stops-at-document-boundary', 1: 'anchors-reset-after-document', 2: 'inv_anchors'},
    modifies=['self.g_epos', 'self.anchors', 'self.anchors[]'] + RES_MOD, raises=SRC_RAISES)

contract('yaml.composer.Composer.get_single_node', props=P,
    requires=COMMON_REQ + ["self.g_epos == 0"],
    result='opt:obj:yaml.nodes.Node',
    ensures=["self.g_epos == len(EV(self))", "inv_anchors(self)"],
    labels={0: 'whole-stream-consumed', 1: 'inv_anchors'},
    modifies=['self.g_epos', 'self.anchors', 'self.anchors[]'] + RES_MOD, raises=SRC_RAISES)

contract('yaml.composer.Composer.__init__', props=['C11', 'C13'],
    requires=[], ensures=["len(self.anchors) == 0 and fresh(self.anchors)"], labels={0: 'no-anchors-initially'},
    modifies=['self.anchors'], raises=[])
