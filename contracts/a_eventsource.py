"""The abstract event source the composer reads from (DESIGN 5/C13, 5/C03 composer part).

Ghost state on the loader object: g_events (an immutable list of Event objects: every event the parser will ever
deliver, in order) and g_epos (how many have been consumed).  check_event / peek_event / get_event are given
contracts over this ghost state; they are ASSUMED here (the parser's own state functions are under contract
separately, contracts/parser.py) and listed as such in the evidence.

Grammar of the ghost sequence (the event grammar of the property C09, written as first-order axioms over an
uninterpreted `nend`: position just after the node that starts at i):
"""
import z3
from pyvc.spec import contract, fields, define, REG
from pyvc.z3v import *

EV = 'yaml.events.'
fields('yaml.events.Event', start_mark='any', end_mark='any')
fields('yaml.events.NodeEvent', anchor='opt:str')
fields('yaml.events.CollectionStartEvent', tag='opt:str', implicit='any', flow_style='any')
fields('yaml.events.ScalarEvent', tag='opt:str', implicit='tuple', value='str', style='opt:str')
fields('yaml.events.DocumentStartEvent', explicit='any', version='any', tags='any')
fields('yaml.events.DocumentEndEvent', explicit='any')
fields('yaml.events.StreamStartEvent', encoding='any')
fields('yaml.composer.Composer', anchors='dict', g_epos='int')

nend = z3.Function('ev_nend', z3.IntSort(), z3.IntSort())
inseq = z3.Function('ev_inseq', z3.IntSort(), z3.IntSort(), z3.BoolSort())
inmapk = z3.Function('ev_inmapk', z3.IntSort(), z3.IntSort(), z3.BoolSort())
inmapv = z3.Function('ev_inmapv', z3.IntSort(), z3.IntSort(), z3.BoolSort())
docat = z3.Function('ev_docat', z3.IntSort(), z3.BoolSort())


ev_seq = z3.Function('ev_seq', z3.IntSort(), SeqV)      # the (immutable, ghost) event sequence of a loader object


def _E(cx):
    return ev_seq(rv(cx.st.env['self'].t))


def _EV(ex, st, s):
    from pyvc.symex import Val
    return Val(ev_seq(rv(s.t)), 'seq')


define('EV', ['s'], _EV)


def _is(ex, v, cls):
    ids = ex.w.subclass_ids(ex.repo.cls(EV + cls))
    return z3.And(is_r(v), z3.Or(*[typ(rv(v)) == i for i in ids]))


def nodestart(ex, v):
    return z3.Or(_is(ex, v, 'AliasEvent'), _is(ex, v, 'ScalarEvent'), _is(ex, v, 'SequenceStartEvent'), _is(ex, v, 'MappingStartEvent'))


def wf_events(cx):
    """the ghost event sequence is a word of the event grammar"""
    ex, st = cx.ex, cx.st
    E = _E(cx)
    n = z3.Length(E)
    i, s, k = z3.Ints('wf_i wf_s wf_k')
    inr = lambda x: z3.And(0 <= x, x < n)
    return z3.And(
        # every element is an allocated event object
        z3.ForAll([i], z3.Implies(inr(i), z3.And(_is(ex, E[i], 'Event'), rv(E[i]) >= 0, rv(E[i]) < ex.entry_alloc())), patterns=[E[i]]),
        # scalars and aliases are one-event nodes
        z3.ForAll([i], z3.Implies(z3.And(inr(i), z3.Or(_is(ex, E[i], 'ScalarEvent'), _is(ex, E[i], 'AliasEvent'))), nend(i) == i + 1), patterns=[nend(i)]),
        z3.ForAll([i], z3.Implies(z3.And(inr(i), nodestart(ex, E[i])), z3.And(nend(i) > i, nend(i) <= n)), patterns=[nend(i)]),
        # sequences
        z3.ForAll([i], z3.Implies(z3.And(inr(i), _is(ex, E[i], 'SequenceStartEvent')), inseq(i, i + 1)), patterns=[E[i]]),
        z3.ForAll([s, k], z3.Implies(inseq(s, k), z3.And(inr(k), inr(s), s < k,
                                                         z3.Implies(_is(ex, E[k], 'SequenceEndEvent'), nend(s) == k + 1),
                                                         z3.Implies(z3.Not(_is(ex, E[k], 'SequenceEndEvent')), z3.And(nodestart(ex, E[k]), inseq(s, nend(k)))))),
                  patterns=[inseq(s, k)]),
        # mappings
        z3.ForAll([i], z3.Implies(z3.And(inr(i), _is(ex, E[i], 'MappingStartEvent')), inmapk(i, i + 1)), patterns=[E[i]]),
        z3.ForAll([s, k], z3.Implies(inmapk(s, k), z3.And(inr(k), inr(s), s < k,
                                                          z3.Implies(_is(ex, E[k], 'MappingEndEvent'), nend(s) == k + 1),
                                                          z3.Implies(z3.Not(_is(ex, E[k], 'MappingEndEvent')), z3.And(nodestart(ex, E[k]), inmapv(s, nend(k)))))),
                  patterns=[inmapk(s, k)]),
        z3.ForAll([s, k], z3.Implies(inmapv(s, k), z3.And(inr(k), inr(s), s < k, nodestart(ex, E[k]), inmapk(s, nend(k)))), patterns=[inmapv(s, k)]),
        # documents and the stream
        n >= 2, _is(ex, E[0], 'StreamStartEvent'), docat(1),
        z3.ForAll([k], z3.Implies(docat(k), z3.And(inr(k), z3.Or(
            z3.And(_is(ex, E[k], 'StreamEndEvent'), k == n - 1),
            z3.And(_is(ex, E[k], 'DocumentStartEvent'), k + 1 < n, nodestart(ex, E[k + 1]), nend(k + 1) < n,
                   _is(ex, E[nend(k + 1)], 'DocumentEndEvent'), docat(nend(k + 1) + 1))))), patterns=[docat(k)]),
    )


wf_events.__name__ = 'wf_events(self.g_events): the event source delivers a word of the event grammar'


def at_nodestart(cx):
    E = _E(cx)
    p = iv(cx.ev('self.g_epos').t)
    return z3.And(0 <= p, p < z3.Length(E), nodestart(cx.ex, E[p]))


def at(cls):
    def f(cx):
        E = _E(cx)
        p = iv(cx.ev('self.g_epos').t)
        return z3.And(0 <= p, p < z3.Length(E), _is(cx.ex, E[p], cls))
    f.__name__ = 'next event is %s' % cls
    return f


def epos_is_nend_of_old(cx):
    return iv(cx.ev('self.g_epos').t) == nend(iv(cx.ev('old(self.g_epos)').t))


epos_is_nend_of_old.__name__ = 'exactly the events of one node were consumed'

SRC_RAISES = ['yaml.error.YAMLError']      # ReaderError / ScannerError / ParserError from below

for _q in ['yaml.parser.Parser.check_event']:
    contract(_q, trusted=True, why='abstract event source (assumed; the parser functions are verified against their own contracts)',
             params={}, result='bool',
             requires=["0 <= self.g_epos and self.g_epos < len(EV(self))"],
             ensures=["result == (len(choices) == 0 or isinst_any(EV(self)[self.g_epos], choices))"],
             modifies=[], raises=SRC_RAISES)
contract('yaml.parser.Parser.peek_event', trusted=True, why='abstract event source', result='obj:yaml.events.Event',
         requires=["0 <= self.g_epos and self.g_epos < len(EV(self))"],
         ensures=["result is EV(self)[self.g_epos]"], modifies=[], raises=SRC_RAISES)
contract('yaml.parser.Parser.get_event', trusted=True, why='abstract event source', result='obj:yaml.events.Event',
         requires=["0 <= self.g_epos and self.g_epos < len(EV(self))"],
         ensures=["result is EV(self)[old(self.g_epos)]", "self.g_epos == old(self.g_epos) + 1"],
         modifies=['self.g_epos'], raises=SRC_RAISES)
