"""Contracts for lib/yaml/constructor.py: node -> object cache and recursion guard (C13), per-document reset (C11),
mapping construction and merge flattening (C14), the constructor protocol (C01)."""
import z3
from pyvc.spec import contract, fields, define, extern
from pyvc.z3v import *

fields('yaml.constructor.BaseConstructor', constructed_objects='dict', recursive_objects='dict', state_generators='list', deep_construct='bool')

CO = 'yaml.constructor.BaseConstructor.'
CERR = 'yaml.constructor.ConstructorError'

define('co_grow', ['s'], "forall_v(k, old(haskey(s.constructed_objects, k)) ==> (haskey(s.constructed_objects, k) and dget(s.constructed_objects, k) is old(dget(s.constructed_objects, k))))")
define('ro_same', ['s'], "forall_v(k, haskey(s.recursive_objects, k) == old(haskey(s.recursive_objects, k)))")
define('inv_gens', ['s'], "forall(i, 0, len(s.state_generators), exact(s.state_generators[i], 'types.GeneratorType'))")
define('inv_ctor', ['s'], "s.constructed_objects is not s.recursive_objects and heapobj(s.constructed_objects) and heapobj(s.recursive_objects) and heapobj(s.state_generators) and forall_v(k, haskey(s.yaml_multi_constructors, k) ==> (k is None or typeis(k, 'str')))")
define('is_node', ['n'], "typeis(n, 'obj:yaml.nodes.Node') and typeis(n.tag, 'str')")

PROTO_MOD = ['self.constructed_objects[]', 'self.recursive_objects[]', 'self.state_generators[]', 'self.deep_construct']
PROTO_ENS = ["co_grow(self)", "ro_same(self)", "self.deep_construct == old(self.deep_construct)", "inv_gens(self)"]
PROTO_WHY = ('constructor protocol ASSUMED of every registered constructor / generator resumption: it may construct other nodes '
             '(the cache only grows), leaves the in-progress set and the deep flag as it found them on normal return, may raise anything')

# the three computed calls of construct_object / construct_document
for _fn in ['construct_object']:
    extern('value-call', CO + _fn, why=PROTO_WHY, requires=["inv_gens(self)"], ensures=PROTO_ENS, modifies=PROTO_MOD, raises_any=True)
    extern('next', CO + _fn, why=PROTO_WHY, requires=[], ensures=PROTO_ENS, modifies=PROTO_MOD, raises_any=True)
    extern('exhaust', CO + _fn, why=PROTO_WHY, requires=[], ensures=PROTO_ENS, modifies=PROTO_MOD, raises_any=True)
extern('exhaust', CO + 'construct_document', why=PROTO_WHY, requires=[], ensures=["inv_gens(self)"],
       modifies=['self.constructed_objects[]', 'self.recursive_objects[]', 'self.state_generators[]', 'self.deep_construct'], raises_any=True)

contract(CO + '__init__', props=['C11', 'C13'],
    ensures=["len(self.constructed_objects) == 0 and len(self.recursive_objects) == 0 and len(self.state_generators) == 0 and self.deep_construct == False",
             "fresh(self.constructed_objects) and fresh(self.recursive_objects) and fresh(self.state_generators)",
             "self.constructed_objects is not self.recursive_objects"],
    labels={0: 'empty-caches', 1: 'fresh-caches', 2: 'distinct-caches'},
    modifies=['self.constructed_objects', 'self.recursive_objects', 'self.state_generators', 'self.deep_construct'], raises=[])

contract(CO + 'construct_object', props=['C13', 'C01', 'C14', 'C17'],
    params={'deep': 'bool'},
    requires=["is_node(node)", "inv_gens(self)", "inv_ctor(self)"],
    ensures=[
        # the cache: one object per node, returned on every later visit (aliases mean identity)
        "old(haskey(self.constructed_objects, node)) ==> result is old(dget(self.constructed_objects, node))",
        "old(haskey(self.constructed_objects, node)) ==> forall_v(k, haskey(self.constructed_objects, k) == old(haskey(self.constructed_objects, k)))",
        # the recursion guard: a node that is being constructed (and has no object yet) is never constructed again
        "not old(haskey(self.constructed_objects, node)) ==> not old(haskey(self.recursive_objects, node))",
        "haskey(self.constructed_objects, node) and dget(self.constructed_objects, node) is result",
        "co_grow(self)", "ro_same(self)",
        "self.deep_construct == old(self.deep_construct)",
        "inv_gens(self)",
    ],
    labels={0: 'cache-hit-returns-the-same-object', 1: 'cache-hit-constructs-nothing', 2: 'recursion-guard', 3: 'result-is-cached',
            4: 'cache-only-grows', 5: 'in-progress-set-restored', 6: 'deep-flag-restored', 7: 'inv_gens'},
    modifies=PROTO_MOD, raises=[CERR], raises_any=True)

contract(CO + 'construct_document', props=['C11', 'C13'],
    requires=["is_node(node)", "inv_gens(self)", "inv_ctor(self)"],
    ensures=[
        "inv_ctor(self)",
        "len(self.constructed_objects) == 0 and fresh(self.constructed_objects)",
        "len(self.recursive_objects) == 0 and fresh(self.recursive_objects)",
        "len(self.state_generators) == 0",
        "self.deep_construct == False",
    ],
    labels={0: 'inv_ctor', 1: 'object-cache-reset', 2: 'in-progress-set-reset', 3: 'all-generators-exhausted', 4: 'deep-flag-reset'},
    invariants={0: ["inv_gens(self)", "inv_ctor(self)"], 1: ["forall(i, 0, len(state_generators), exact(state_generators[i], 'types.GeneratorType'))", "inv_gens(self)", "inv_ctor(self)"]},
    modifies=['self.constructed_objects', 'self.recursive_objects', 'self.state_generators', 'self.deep_construct',
              'self.constructed_objects[]', 'self.recursive_objects[]', 'self.state_generators[]'],
    raises=[CERR], raises_any=True)

contract(CO + 'construct_scalar', props=['C01', 'C13'],
    requires=["typeis(node, 'obj:yaml.nodes.Node')"],
    ensures=["typeis(node, 'obj:yaml.nodes.ScalarNode') and result is node.value"],
    labels={0: 'scalar-value'}, modifies=[], raises=[CERR])


# ---- C14: generic collection construction (BaseConstructor)
define('wf_items', ['n'], "(exact(n, 'yaml.nodes.MappingNode') ==> (typeis(n.value, 'list') and forall(i, 0, len(as_(n.value, 'list')), typeis(as_(n.value, 'list')[i], 'tuple') and len(as_(as_(n.value, 'list')[i], 'tuple')) == 2 and is_node(as_(as_(n.value, 'list')[i], 'tuple')[0]) and is_node(as_(as_(n.value, 'list')[i], 'tuple')[1])))) and "
       "(exact(n, 'yaml.nodes.SequenceNode') ==> (typeis(n.value, 'list') and forall(i, 0, len(as_(n.value, 'list')), is_node(as_(n.value, 'list')[i]))))")
_CM_REQ = ["is_node(node)", "inv_gens(self)", "inv_ctor(self)", "wf_items(node)"]
_CM_INV = ["inv_gens(self)", "inv_ctor(self)", "co_grow(self)", "ro_same(self)", "self.deep_construct == old(self.deep_construct)"]
contract(CO + 'construct_mapping', props=['C14'],
    params={'deep': 'bool'},
    requires=_CM_REQ, result='dict',
    ensures=["fresh(result)", "co_grow(self)", "ro_same(self)", "self.deep_construct == old(self.deep_construct)", "inv_gens(self)",
             "exact(node, 'yaml.nodes.MappingNode')"],
    labels={0: 'a-new-dict', 1: 'cache-only-grows', 2: 'in-progress-set-restored', 3: 'deep-flag-restored', 4: 'inv_gens', 5: 'only-mapping-nodes-are-accepted'},
    invariants={0: _CM_INV + ["typeis(mapping, 'dict') and fresh(mapping)", "exact(node, 'yaml.nodes.MappingNode')"]},
    modifies=PROTO_MOD, raises=[CERR], raises_any=True)

contract(CO + 'construct_pairs', props=['C14'],
    params={'deep': 'bool'},
    requires=_CM_REQ, result='list',
    ensures=["fresh(result)", "co_grow(self)", "ro_same(self)", "self.deep_construct == old(self.deep_construct)", "inv_gens(self)",
             "exact(node, 'yaml.nodes.MappingNode')", "len(result) == old(len(node.value))"],
    labels={0: 'a-new-list', 1: 'cache-only-grows', 2: 'in-progress-set-restored', 3: 'deep-flag-restored', 4: 'inv_gens', 5: 'only-mapping-nodes-are-accepted',
            6: 'one-pair-per-entry'},
    invariants={0: _CM_INV + ["typeis(pairs, 'list') and fresh(pairs)", "exact(node, 'yaml.nodes.MappingNode')", "len(pairs) == loop_i", "len(loop_seq) == old(len(node.value))"]},
    modifies=PROTO_MOD, raises=[CERR], raises_any=True)

contract(CO + 'construct_sequence', props=['C14'],
    params={'deep': 'bool'},
    requires=_CM_REQ, result='list',
    ensures=["fresh(result)", "co_grow(self)", "ro_same(self)", "self.deep_construct == old(self.deep_construct)", "inv_gens(self)",
             "exact(node, 'yaml.nodes.SequenceNode')", "len(result) == old(len(node.value))"],
    labels={0: 'a-new-list', 1: 'cache-only-grows', 2: 'in-progress-set-restored', 3: 'deep-flag-restored', 4: 'inv_gens', 5: 'only-sequence-nodes-are-accepted',
            6: 'one-item-per-entry'},
    invariants={0: _CM_INV + ["typeis(comp, 'list') and fresh(comp)", "exact(node, 'yaml.nodes.SequenceNode')", "len(comp) == loop_i", "len(loop_seq) == old(len(node.value))"]},
    modifies=PROTO_MOD, raises=[CERR], raises_any=True)


# ---- C01 / C08: the scalar converters: an explicit tag can put ANY text there -> only ConstructorError may come out
SCN = 'yaml.constructor.SafeConstructor.'
contract(SCN + 'construct_scalar', trusted=True,
         why="'=' value-key indirection (recursion over mapping items): ASSUMED to return the text of a scalar node or raise ConstructorError",
         requires=[], result='str', ensures=[], modifies=[], raises=[CERR])

contract(SCN + 'construct_yaml_null', props=['C01', 'C08'], requires=["typeis(node, 'obj:yaml.nodes.Node')"], result='none',
         ensures=["result is None"], labels={0: 'null'}, modifies=[], raises=[CERR])
contract(SCN + 'construct_yaml_str', props=['C01', 'C08'], requires=["typeis(node, 'obj:yaml.nodes.Node')"], result='str',
         ensures=[], modifies=[], raises=[CERR])
contract(SCN + 'construct_yaml_bool', props=['C01', 'C08'], requires=["typeis(node, 'obj:yaml.nodes.Node')"], result='bool',
         ensures=[], modifies=[], raises=[CERR])
contract(SCN + 'construct_yaml_int', props=['C01', 'C08'], requires=["typeis(node, 'obj:yaml.nodes.Node')"], result='int',
         ensures=[], modifies=[],
         invariants={0: ["typeis(comp, 'list') and fresh(comp)", "forall(j, 0, len(comp), typeis(comp[j], 'int'))"],
                     1: ["typeis(value, 'int') and typeis(base, 'int') and typeis(sign, 'int')", "typeis(digits, 'list')",
                         "forall(j, 0, len(digits), typeis(digits[j], 'int'))"]},
         raises=[CERR])
contract(SCN + 'construct_yaml_float', props=['C01', 'C08'], requires=["typeis(node, 'obj:yaml.nodes.Node')"], result='float',
         ensures=[], modifies=[],
         invariants={0: ["typeis(comp, 'list') and fresh(comp)", "forall(j, 0, len(comp), typeis(comp[j], 'float'))"],
                     1: ["typeis(value, 'float') and typeis(base, 'int') and typeis(sign, 'int')", "typeis(digits, 'list')",
                         "forall(j, 0, len(digits), typeis(digits[j], 'float'))"]},
         raises=[CERR])


# ---- C13 / C14: the two-phase (generator) constructors of the safe loader.  Recursive structures need the container to exist, and to be
# cached by construct_object, BEFORE any child is constructed: so each of these hands out a NEW EMPTY container having touched nothing
# (at_yield + the empty frame at the yield), yields exactly once, and fills that same container in the second phase, during which it
# keeps the constructor protocol that construct_object / construct_document assume of generator resumption (PHASE2 = PROTO_ENS with
# old = the state at resumption).  While suspended, the rest of the construction may do what the protocol allows (RESUME).
SCN_MAPPING_WHY = ('merge flattening is not under contract (flatten_mapping: bounded stand-in of C14); ASSUMED: flattens, then behaves as '
                   'BaseConstructor.construct_mapping (verified), i.e. keeps the constructor protocol and returns a new dict')
contract(SCN + 'construct_mapping', trusted=True, why=SCN_MAPPING_WHY, params={'deep': 'bool'},
         requires=["is_node(node)", "inv_gens(self)", "inv_ctor(self)"], result='dict',
         ensures=["fresh(result)", "co_grow(self)", "ro_same(self)", "self.deep_construct == old(self.deep_construct)", "inv_gens(self)"],
         modifies=PROTO_MOD, raises=[CERR], raises_any=True)

# separation by element type, stated as a precondition: the item list of a node is not the constructor's list of suspended generators
GEN_REQ = ["is_node(node)", "inv_gens(self)", "inv_ctor(self)", "wf_items(node)", "node.value is not self.state_generators"]
PHASE2 = ["co_grow(self)", "ro_same(self)", "self.deep_construct == old(self.deep_construct)", "inv_gens(self)"]
PHASE2_L = {0: 'cache-only-grows', 1: 'in-progress-set-restored', 2: 'deep-flag-restored', 3: 'inv_gens'}
RESUME = dict(resume_modifies=PROTO_MOD, resume_ensures=["inv_gens(self)", "inv_ctor(self)"])

contract(SCN + 'construct_yaml_seq', props=['C13', 'C14'], requires=GEN_REQ,
         at_yield=["fresh(result) and typeis(result, 'list') and len(result) == 0"], yield_labels={0: 'a-new-empty-list-before-any-child'},
         ensures=PHASE2 + ["exact(node, 'yaml.nodes.SequenceNode') and len(yielded) == len(node.value)"],
         labels={**PHASE2_L, 4: 'the-yielded-list-gets-one-item-per-entry'},
         modifies=PROTO_MOD, raises=[CERR], raises_any=True, **RESUME)

contract(SCN + 'construct_yaml_map', props=['C13', 'C14'], requires=GEN_REQ,
         at_yield=["fresh(result) and typeis(result, 'dict') and len(result) == 0"], yield_labels={0: 'a-new-empty-dict-before-any-child'},
         ensures=PHASE2, labels=PHASE2_L, modifies=PROTO_MOD, raises=[CERR], raises_any=True, **RESUME)

contract(SCN + 'construct_yaml_set', props=['C13', 'C14'], requires=GEN_REQ,
         at_yield=["fresh(result) and typeis(result, 'set') and len(result) == 0"], yield_labels={0: 'a-new-empty-set-before-any-child'},
         ensures=PHASE2, labels=PHASE2_L, modifies=PROTO_MOD, raises=[CERR], raises_any=True, **RESUME)

define('wf_single_items', ['s', 'n'], "exact(n, 'yaml.nodes.SequenceNode') ==> forall(i, 0, len(n.value), wf_items(n.value[i]) and n.value[i].value is not s.state_generators)")
for _n, _v in [('construct_yaml_omap', 'omap'), ('construct_yaml_pairs', 'pairs')]:
    contract(SCN + _n, props=['C13', 'C14'], requires=GEN_REQ + ["wf_single_items(self, node)"],
             at_yield=["fresh(result) and typeis(result, 'list') and len(result) == 0"], yield_labels={0: 'a-new-empty-list-before-any-child'},
             ensures=PHASE2 + ["exact(node, 'yaml.nodes.SequenceNode') and len(yielded) == len(node.value)",
                               "forall(i, 0, len(yielded), typeis(yielded[i], 'tuple') and len(as_(yielded[i], 'tuple')) == 2)"],
             labels={**PHASE2_L, 4: 'one-pair-per-entry', 5: 'every-item-is-a-key-value-pair'},
             invariants={0: ["inv_gens(self)", "inv_ctor(self)", "co_grow(self)", "ro_same(self)", "self.deep_construct == old(self.deep_construct)",
                             "%s is yielded" % _v, "len(%s) == loop_i" % _v,
                             "exact(node, 'yaml.nodes.SequenceNode') and loop_seq == seq(node.value)",
                             "forall(i, 0, len(%s), typeis(%s[i], 'tuple') and len(as_(%s[i], 'tuple')) == 2)" % (_v, _v, _v)]},
             modifies=PROTO_MOD, raises=[CERR], raises_any=True, **RESUME)
