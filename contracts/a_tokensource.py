"""The abstract token source the parser reads from (DESIGN 5/C09 "for the parser alone, for ALL token sequences").

Ghost: tk_seq(self) = every token the scanner will ever deliver (immutable), self.g_tpos = how many were consumed.
The sequence is arbitrary except for what the scanner's own contracts guarantee (stated here as wf_tokens):
objects are Tokens, STREAM-START first, STREAM-END last and only last, marks are Marks whose indices are ordered
(start <= end <= next start) and lie in [0, N], token payloads have the shapes the scanner builds.
check_token / peek_token / get_token are ASSUMED against this ghost sequence.
"""
import z3
from pyvc.spec import contract, fields, define
from pyvc.z3v import *

TK = 'yaml.tokens.'
fields('yaml.tokens.Token', start_mark='obj:yaml.error.Mark', end_mark='obj:yaml.error.Mark')
fields('yaml.tokens.DirectiveToken', name='str', value='any')
fields('yaml.tokens.StreamStartToken', encoding='any')
fields('yaml.tokens.AliasToken', value='str')
fields('yaml.tokens.AnchorToken', value='str')
fields('yaml.tokens.TagToken', value='tuple')
fields('yaml.tokens.ScalarToken', value='str', plain='bool', style='opt:str')
fields('yaml.error.Mark', name='any', index='int', line='int', column='int', buffer='any', pointer='any')
fields('yaml.parser.Parser', g_tpos='int')

tk_seq = z3.Function('tk_seq', z3.IntSort(), SeqV)
tk_N = z3.Function('tk_N', z3.IntSort(), z3.IntSort())       # length of the input the tokens were scanned from


def _T(cx):
    return tk_seq(rv(cx.st.env['self'].t))


def _TKm(ex, st, s):
    from pyvc.symex import Val
    return Val(tk_seq(rv(s.t)), 'seq')


def _TKN(ex, st, s):
    from pyvc.symex import Val
    return Val(mk_i(tk_N(rv(s.t))), 'int')


define('TK', ['s'], _TKm)
define('TKN', ['s'], _TKN)


def tis(ex, v, cls):
    ids = ex.w.subclass_ids(ex.repo.cls(TK + cls))
    return z3.And(is_r(v), z3.Or(*[typ(rv(v)) == i for i in ids]))


def wf_tokens(cx):
    ex, st = cx.ex, cx.st
    T = _T(cx)
    n = z3.Length(T)
    N = tk_N(rv(st.env['self'].t))
    i = z3.Int('tk_i')
    j = z3.Int('tk_j')
    inr = lambda x: z3.And(0 <= x, x < n)
    f = lambda name: ex.harr(st, 'f:' + name)
    sm = lambda t: rv(z3.Select(f('start_mark'), rv(t)))
    em = lambda t: rv(z3.Select(f('end_mark'), rv(t)))
    idx = lambda m: iv(z3.Select(f('index'), m))
    val = lambda t: z3.Select(f('value'), rv(t))
    mark_id = ex.w.class_id('yaml.error.Mark')
    two = lambda v: z3.And(is_r(v), typ(rv(v)) == 3, z3.Length(tup(rv(v))) == 2)
    el = lambda v, k: tup(rv(v))[k]
    fa = lambda body: z3.ForAll([i], z3.Implies(inr(i), body), patterns=[T[i]])
    return z3.And(
        n >= 2, tis(ex, T[0], 'StreamStartToken'), tis(ex, T[n - 1], 'StreamEndToken'), N >= 0,
        fa(z3.And(tis(ex, T[i], 'Token'), rv(T[i]) >= 0, rv(T[i]) < ex.entry_alloc(), z3.Implies(tis(ex, T[i], 'StreamEndToken'), i == n - 1))),
        # marks: real Mark objects, ordered, inside the input
        fa(z3.And(is_r(z3.Select(f('start_mark'), rv(T[i]))), typ(sm(T[i])) == mark_id, sm(T[i]) >= 0, sm(T[i]) < ex.entry_alloc(),
                  is_r(z3.Select(f('end_mark'), rv(T[i]))), typ(em(T[i])) == mark_id, em(T[i]) >= 0, em(T[i]) < ex.entry_alloc())),
        fa(z3.And(is_i(z3.Select(f('index'), sm(T[i]))), is_i(z3.Select(f('index'), em(T[i]))),
                  0 <= idx(sm(T[i])), idx(sm(T[i])) <= idx(em(T[i])), idx(em(T[i])) <= N)),
        fa(z3.Implies(i + 1 < n, idx(em(T[i])) <= idx(sm(T[i + 1])))),
        # the same ordering at any distance (follows from the adjacent one by induction; stated so that no solver has to induct)
        z3.ForAll([i, j], z3.Implies(z3.And(0 <= i, i < j, j < n), idx(em(T[i])) <= idx(sm(T[j]))), patterns=[z3.MultiPattern(T[i], T[j])]),
        # payload shapes built by the scanner
        fa(z3.Implies(tis(ex, T[i], 'TagToken'), z3.And(two(val(T[i])), z3.Or(is_none(el(val(T[i]), 0)), is_s(el(val(T[i]), 0))), is_s(el(val(T[i]), 1))))),
        fa(z3.Implies(tis(ex, T[i], 'DirectiveToken'), z3.And(
            is_s(z3.Select(f('name'), rv(T[i]))),
            z3.Implies(sv(z3.Select(f('name'), rv(T[i]))) == z3.StringVal('YAML'), z3.And(two(val(T[i])), is_i(el(val(T[i]), 0)), is_i(el(val(T[i]), 1)))),
            z3.Implies(sv(z3.Select(f('name'), rv(T[i]))) == z3.StringVal('TAG'), z3.And(two(val(T[i])), is_s(el(val(T[i]), 0)), is_s(el(val(T[i]), 1))))))),
    )


wf_tokens.__name__ = 'wf_tokens(self): an arbitrary scanner-shaped token sequence (STREAM-START .. STREAM-END, ordered marks)'

SCAN_RAISES = ['yaml.error.YAMLError']       # ReaderError / ScannerError raised while fetching more tokens

_req = ["0 <= self.g_tpos and self.g_tpos < len(TK(self))"]
contract('yaml.scanner.Scanner.check_token', trusted=True, why='abstract token source (assumed; scanner functions are verified against their own contracts)',
         result='bool', requires=_req,
         ensures=["result == (len(choices) == 0 or isinst_any(TK(self)[self.g_tpos], choices))"], modifies=[], raises=SCAN_RAISES)
contract('yaml.scanner.Scanner.peek_token', trusted=True, why='abstract token source', result='obj:yaml.tokens.Token', requires=_req,
         ensures=["result is TK(self)[self.g_tpos]"], modifies=[], raises=SCAN_RAISES)
contract('yaml.scanner.Scanner.get_token', trusted=True, why='abstract token source', result='obj:yaml.tokens.Token', requires=_req,
         ensures=["result is TK(self)[old(self.g_tpos)]", "self.g_tpos == old(self.g_tpos) + 1"], modifies=['self.g_tpos'], raises=SCAN_RAISES)
