"""Contracts for lib/yaml/parser.py (C03 parser part, C09 event marks + stack discipline, C11 tag handles, C12 document loop).

Every parse_* state function is verified for an ARBITRARY next-token class, an arbitrary continuation stack that satisfies
the stack typing PST, and an arbitrary scanner-shaped token sequence.  PST (DESIGN Appendix A, safety half):
  * before a document / between documents (kind TOP) and at parse_document_end (kind DOC): states == [] and marks == [];
  * inside a document (kind IN): states[0] is parse_document_end, every other stacked state is a collection continuation,
    and len(marks) == sum of the weights of the stacked states + the weight of the current state, where weight 1 = "this
    state belongs to a collection that pushed a mark".
It makes every states.pop() / marks.pop() / marks[-1] safe and the two asserts at STREAM-END true.
"""
import z3
from pyvc.spec import contract, fields, define
from pyvc.z3v import *
from contracts.a_tokensource import wf_tokens, _T, tis, tk_N, SCAN_RAISES

fields('yaml.parser.Parser', current_event='any', yaml_version='any', tag_handles='dict', states='list', marks='list', state='opt:func')

P = 'yaml.parser.Parser.'
PERR = 'yaml.parser.ParserError'
TOP, DOC, IN = 0, 1, 2

# state name -> (kind, weight)
STATES = {
    'parse_stream_start': (TOP, 0), 'parse_implicit_document_start': (TOP, 0), 'parse_document_start': (TOP, 0),
    'parse_document_end': (DOC, 0),
    'parse_document_content': (IN, 0), 'parse_block_node': (IN, 0), 'parse_flow_node': (IN, 0), 'parse_block_node_or_indentless_sequence': (IN, 0),
    'parse_block_sequence_first_entry': (IN, 0), 'parse_block_sequence_entry': (IN, 1), 'parse_indentless_sequence_entry': (IN, 0),
    'parse_block_mapping_first_key': (IN, 0), 'parse_block_mapping_key': (IN, 1), 'parse_block_mapping_value': (IN, 1),
    'parse_flow_sequence_first_entry': (IN, 0), 'parse_flow_sequence_entry': (IN, 1),
    'parse_flow_sequence_entry_mapping_key': (IN, 1), 'parse_flow_sequence_entry_mapping_value': (IN, 1), 'parse_flow_sequence_entry_mapping_end': (IN, 1),
    'parse_flow_mapping_first_key': (IN, 0), 'parse_flow_mapping_key': (IN, 1), 'parse_flow_mapping_value': (IN, 1), 'parse_flow_mapping_empty_value': (IN, 1),
}
# states that may sit on the continuation stack above parse_document_end
COLL = ['parse_block_sequence_entry', 'parse_indentless_sequence_entry', 'parse_block_mapping_key', 'parse_block_mapping_value',
        'parse_flow_sequence_entry', 'parse_flow_sequence_entry_mapping_value', 'parse_flow_sequence_entry_mapping_end',
        'parse_flow_mapping_key', 'parse_flow_mapping_value', 'parse_flow_mapping_empty_value']

st_kind = z3.Function('pst_kind', V, z3.IntSort())
st_w = z3.Function('pst_w', V, z3.IntSort())
st_coll = z3.Function('pst_coll', V, z3.BoolSort())       # may sit on the continuation stack above parse_document_end
msum = z3.Function('pst_msum', SeqV, z3.IntSort())        # sum of the weights along a stack
okstk = z3.Function('pst_okstk', SeqV, z3.BoolSort())     # [parse_document_end, coll, coll, ...]


def sref(ex, name):
    return mk_r(ex.w.static('method:' + name))


def state_tables(cx):
    """definitions of kind / weight / stackability of each state function; msum and okstk are defined by recursion on the
    stack (push at the end), stated as unfolding axioms with the pushed term as trigger"""
    ex = cx.ex
    s = z3.Const('ms_s', SeqV)
    x = z3.Const('ms_x', V)
    D = sref(ex, 'parse_document_end')
    facts = [z3.And(st_kind(sref(ex, n)) == k, st_w(sref(ex, n)) == w, st_coll(sref(ex, n)) == (n in COLL)) for n, (k, w) in STATES.items()]
    return z3.And(*facts,
                  z3.ForAll([x], z3.Implies(st_coll(x), z3.And(st_kind(x) == IN, is_r(x), rv(x) < 0, st_w(x) >= 0, st_w(x) <= 1, x != D)), patterns=[st_coll(x)]),
                  msum(z3.Empty(SeqV)) == 0,
                  z3.ForAll([s, x], msum(z3.Concat(s, z3.Unit(x))) == msum(s) + st_w(x), patterns=[msum(z3.Concat(s, z3.Unit(x)))]),
                  z3.ForAll([x], msum(z3.Unit(x)) == st_w(x), patterns=[msum(z3.Unit(x))]),
                  # lemma (induction on the stack; every weight is 0 or 1)
                  z3.ForAll([s], msum(s) >= 0, patterns=[msum(s)]),
                  z3.Not(okstk(z3.Empty(SeqV))),
                  z3.ForAll([x], okstk(z3.Unit(x)) == (x == D), patterns=[okstk(z3.Unit(x))]),
                  z3.ForAll([s, x], z3.Implies(z3.Length(s) >= 1, okstk(z3.Concat(s, z3.Unit(x))) == z3.And(okstk(s), st_coll(x))),
                            patterns=[okstk(z3.Concat(s, z3.Unit(x)))]),
                  z3.ForAll([s], z3.Implies(okstk(s), z3.Length(s) >= 1), patterns=[okstk(s)]))


state_tables.__name__ = 'definitions: kind/weight/stackability of every parser state; msum, okstk by recursion on the stack'


def _stacks(cx, st=None):
    ex = cx.ex
    st = st or cx.st
    me = st.env['self']
    states = ex.seq_of(st, ex.get_field(st, me, 'states'))
    marks = ex.seq_of(st, ex.get_field(st, me, 'marks'))
    return states, marks


def pst_for(cx, cur):
    """stack typing when the current state is the z3 value `cur`"""
    ex = cx.ex
    states, marks = _stacks(cx)
    empty = z3.And(z3.Length(states) == 0, z3.Length(marks) == 0)
    inside = z3.And(okstk(states), z3.Length(marks) == msum(states) + st_w(cur))
    me = cx.st.env['self']
    sl, ml = ex.get_field(cx.st, me, 'states').t, ex.get_field(cx.st, me, 'marks').t
    known = z3.And(z3.Or(st_kind(cur) == TOP, st_kind(cur) == DOC, st_kind(cur) == IN), is_r(cur), rv(cur) < 0,
                   rv(sl) != rv(ml), rv(sl) >= 0, rv(ml) >= 0)      # two distinct heap lists
    return z3.And(known, z3.Implies(st_kind(cur) == IN, inside), z3.Implies(st_kind(cur) != IN, empty))


def pst(name):
    def f(cx):
        return pst_for(cx, sref(cx.ex, name))
    f.__name__ = 'PST: stack typing for current state %s' % name
    return f


def pst_after(cx):
    """stack typing for whatever self.state is now (None only after STREAM-END)"""
    cur = cx.ev('self.state').t
    states, marks = _stacks(cx)
    return z3.And(z3.Implies(is_none(cur), z3.And(z3.Length(states) == 0, z3.Length(marks) == 0)), z3.Implies(z3.Not(is_none(cur)), pst_for(cx, cur)))


pst_after.__name__ = 'PST holds for the new current state'


def tpos_ok(cx):
    p = iv(cx.ev('self.g_tpos').t)
    return z3.And(0 <= p, p < z3.Length(_T(cx)))


tpos_ok.__name__ = 'STREAM-END has not been consumed'


def tpos_after(cx):
    """tokens are consumed left to right; only the event for STREAM-END consumes the last token"""
    ex = cx.ex
    p = iv(cx.ev('self.g_tpos').t)
    p0 = iv(cx.ev('old(self.g_tpos)').t)
    T = _T(cx)
    return z3.And(p0 <= p, p <= z3.Length(T), (p == z3.Length(T)) == is_none(cx.ev('self.state').t))


tpos_after.__name__ = 'tokens consumed left to right; STREAM-END consumed iff the parser stops'


def idx(cx, mark_val):
    return iv(z3.Select(cx.ex.harr(cx.st, 'f:index'), rv(mark_val)))


def event_marks(cx):
    """C09: 0 <= start <= end <= N; the event starts at or after the first token this call looked at and not after the next
    unconsumed token (so successive events never move backwards)"""
    ex, st = cx.ex, cx.st
    T = _T(cx)
    p = iv(cx.ev('self.g_tpos').t)
    p0 = iv(cx.ev('old(self.g_tpos)').t)
    f = lambda name: ex.harr(st, 'f:' + name)
    res = cx.result.t
    sm = z3.Select(f('start_mark'), rv(res))
    em = z3.Select(f('end_mark'), rv(res))
    tstart = lambda k: iv(z3.Select(f('index'), rv(z3.Select(f('start_mark'), rv(T[k])))))
    mark_id = ex.w.class_id('yaml.error.Mark')
    N = tk_N(rv(st.env['self'].t))
    return z3.And(is_r(sm), typ(rv(sm)) == mark_id, is_r(em), typ(rv(em)) == mark_id,
                  0 <= idx(cx, sm), idx(cx, sm) <= idx(cx, em), idx(cx, em) <= N,
                  tstart(p0) <= idx(cx, sm),
                  z3.Implies(p < z3.Length(T), idx(cx, sm) <= tstart(p)))


event_marks.__name__ = 'event marks: 0 <= start <= end <= N, first-token.start <= start <= next-token.start'

define('inv_handles', ['s'], "forall_v(k, haskey(s.tag_handles, k) ==> typeis(dget(s.tag_handles, k), 'str'))")
MOD = ['self.g_tpos', 'self.state', 'self.states[]', 'self.marks[]']
REQ = [wf_tokens, tpos_ok, "inv_handles(self)"]
ENS = [pst_after, tpos_after, event_marks, "inv_handles(self)"]
LBL = {0: 'stack-typing-preserved', 1: 'token-position', 2: 'event-marks', 3: 'tag-handles-map-to-strings'}
RAISES = [PERR] + SCAN_RAISES


def state_contract(name, result, extra_ens=(), extra_labels=None, modifies=(), **kw):
    labels = dict(LBL)
    for k, v in (extra_labels or {}).items():
        labels[k + len(ENS)] = v
    contract(P + name, props=['C03', 'C09', 'C12'], axioms=[state_tables], requires=REQ + [pst(name)] + list(kw.pop('requires', [])), result='obj:yaml.events.' + result,
             ensures=ENS + list(extra_ens), labels=labels, modifies=MOD + list(modifies), raises=RAISES, **kw)


def first_token(cls):
    def f(cx):
        T = _T(cx)
        return tis(cx.ex, T[iv(cx.ev('self.g_tpos').t)], cls)
    f.__name__ = 'the next token is a %s' % cls
    return f


state_contract('parse_stream_start', 'StreamStartEvent', requires=["self.g_tpos == 0"])
state_contract('parse_implicit_document_start', 'Event', modifies=['self.tag_handles', 'self.yaml_version', 'self.tag_handles[]'],
               extra_ens=["exact(result, 'yaml.events.DocumentStartEvent') or exact(result, 'yaml.events.StreamEndEvent')",
                          # C11: an implicit document sees exactly the default handles, whatever the previous document declared
                          "(exact(result, 'yaml.events.DocumentStartEvent') and result.explicit == False) ==> self.tag_handles is self.DEFAULT_TAGS"],
               extra_labels={0: 'document-start-or-stream-end', 1: 'implicit-document-gets-default-tag-handles'})
state_contract('parse_document_start', 'Event', modifies=['self.tag_handles', 'self.yaml_version', 'self.tag_handles[]'],
               extra_ens=["exact(result, 'yaml.events.DocumentStartEvent') or exact(result, 'yaml.events.StreamEndEvent')",
                          "exact(result, 'yaml.events.StreamEndEvent') == (self.state is None)",
                          "exact(result, 'yaml.events.DocumentStartEvent') ==> result.explicit == True"],
               extra_labels={0: 'document-start-or-stream-end', 1: 'stops-exactly-at-stream-end', 2: 'explicit-document'},
               invariants={0: [wf_tokens, tpos_ok, pst('parse_document_start'), "self.g_tpos >= old(self.g_tpos)", "inv_handles(self)"]})
state_contract('parse_document_end', 'DocumentEndEvent',
               extra_ens=["self.state == func('parse_document_start')"], extra_labels={0: 'back-to-document-start'})
state_contract('parse_document_content', 'NodeEvent')
for _n in ['parse_block_node', 'parse_flow_node', 'parse_block_node_or_indentless_sequence']:
    state_contract(_n, 'NodeEvent')
for _n, _tok in [('parse_block_sequence_first_entry', 'BlockSequenceStartToken'), ('parse_block_mapping_first_key', 'BlockMappingStartToken'),
                 ('parse_flow_sequence_first_entry', 'FlowSequenceStartToken'), ('parse_flow_mapping_first_key', 'FlowMappingStartToken')]:
    state_contract(_n, 'Event', requires=[first_token(_tok)])
for _n in ['parse_block_sequence_entry', 'parse_indentless_sequence_entry', 'parse_block_mapping_key', 'parse_block_mapping_value',
           'parse_flow_sequence_entry_mapping_value', 'parse_flow_sequence_entry_mapping_end',
           'parse_flow_mapping_value', 'parse_flow_mapping_empty_value']:
    state_contract(_n, 'Event')
state_contract('parse_flow_sequence_entry_mapping_key', 'Event', requires=[first_token('KeyToken')])

# the two entry functions with a `first` flag: first=True is the call from the *_first_* state (mark just pushed)
for _n in ['parse_flow_sequence_entry', 'parse_flow_mapping_key']:
    contract(P + _n, props=['C03', 'C09', 'C12'], axioms=[state_tables], params={'first': 'bool'},
             requires=REQ + [pst(_n)], result='obj:yaml.events.Event', ensures=ENS, labels=LBL, modifies=MOD, raises=RAISES)

# parse_node: the three node states share it; `block`/`indentless_sequence` are the literal flags they pass
contract(P + 'parse_node', props=['C09'], axioms=[state_tables], tier='thorough', params={'block': 'bool', 'indentless_sequence': 'bool'}, max_paths=40,
         requires=REQ + [pst('parse_block_node')],
         result='obj:yaml.events.NodeEvent',
         ensures=ENS + [
             # C02/C08: the implicit pair handed to the composer: (plain and untagged, or '!') / (non-plain and untagged)
             "exact(result, 'yaml.events.ScalarEvent') ==> len(as_(result, 'obj:yaml.events.ScalarEvent').implicit) == 2",
         ],
         labels={0: 'stack-typing-preserved', 1: 'token-position', 2: 'event-marks', 3: 'tag-handles-map-to-strings', 4: 'scalar-implicit-is-a-pair'}, modifies=MOD, raises=RAISES)

contract(P + 'process_empty_scalar', props=['C03', 'C09', 'C12'],
         requires=["typeis(mark, 'obj:yaml.error.Mark')"], result='obj:yaml.events.ScalarEvent',
         ensures=["fresh(result) and result.start_mark is mark and result.end_mark is mark and result.value == '' and result.anchor is None and result.tag is None",
                  "len(result.implicit) == 2 and result.implicit[0] == True and result.implicit[1] == False"],
         labels={0: 'empty-plain-scalar-at-mark', 1: 'implicit-plain'}, modifies=[], raises=[])

# C11: directives of one document are not visible in the next; DEFAULT_TAGS itself is never written
contract(P + 'process_directives', props=['C11', 'C03', 'C12'],
         requires=REQ,
         result='tuple',
         ensures=[
             "fresh(self.tag_handles)",
             "haskey(self.tag_handles, '!') and haskey(self.tag_handles, '!!')",
             "forall_v(k, haskey(self.tag_handles, k) ==> typeis(dget(self.tag_handles, k), 'str'))",
             "self.g_tpos >= old(self.g_tpos)", tpos_ok,
             "len(result) == 2",
             lambda cx: z3.Not(tis(cx.ex, _T(cx)[iv(cx.ev('self.g_tpos').t)], 'DirectiveToken')),
         ],
         labels={0: 'tag-handles-rebuilt-from-scratch', 1: 'default-handles-present', 2: 'handles-map-to-strings', 3: 'tokens-left-to-right',
                 4: 'stream-end-not-consumed', 5: 'version-tags-pair', 6: 'all-directives-consumed'},
         invariants={0: [wf_tokens, tpos_ok, "self.g_tpos >= old(self.g_tpos)", "fresh(self.tag_handles)",
                         "forall_v(k, haskey(self.tag_handles, k) ==> typeis(dget(self.tag_handles, k), 'str'))"],
                     1: ["fresh(self.tag_handles)", "forall_v(k, haskey(self.tag_handles, k) ==> typeis(dget(self.tag_handles, k), 'str'))",
                         "forall(j, 0, loop_i, haskey(self.tag_handles, loop_seq[j]))", tpos_ok, "self.g_tpos >= old(self.g_tpos)",
                         lambda cx: z3.Not(tis(cx.ex, _T(cx)[iv(cx.ev('self.g_tpos').t)], 'DirectiveToken'))]},
         modifies=['self.g_tpos', 'self.yaml_version', 'self.tag_handles', 'self.tag_handles[]'], raises=RAISES)

contract(P + '__init__', props=['C11', 'C03'],
         ensures=["len(self.states) == 0 and len(self.marks) == 0 and len(self.tag_handles) == 0 and self.current_event is None",
                  "fresh(self.states) and fresh(self.marks) and fresh(self.tag_handles)", "self.state == func('parse_stream_start')"],
         labels={0: 'empty-stacks', 1: 'fresh-stacks', 2: 'initial-state'},
         modifies=['self.current_event', 'self.yaml_version', 'self.tag_handles', 'self.states', 'self.marks', 'self.state'], raises=[])
