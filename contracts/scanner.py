"""Contracts for the character-level helpers of lib/yaml/scanner.py (C03: only ScannerError/ReaderError, termination by variants;
C12: document markers are recognised at column 0 only; C09: positions advance exactly over what was consumed).

All of them are stated over the abstract reader (contracts/reader.py): ghost text S with its unique NUL sentinel, index, line,
column.  Every self.peek(k) call site must establish that offset k lies inside S, every self.forward(k) that no NUL is crossed.
"""
import z3
from pyvc.spec import contract, fields, define
from pyvc.z3v import *
from contracts.reader import inv_reader, pos_defs, _S, at, RERR

SC = 'yaml.scanner.Scanner.'
SERR = 'yaml.scanner.ScannerError'
fields('yaml.scanner.Scanner', done='bool', flow_level='int', tokens='list', tokens_taken='int', indent='int', indents='list',
       allow_simple_key='bool', possible_simple_keys='dict')

MODR = ['self.buffer', 'self.pointer', 'self.raw_buffer', 'self.eof', 'self.stream_pointer', 'self.stream.g_read']
MODF = MODR + ['self.index', 'self.line', 'self.column']
RAISES = [SERR, RERR]
POS_SAME = "self.index == old(self.index) and self.line == old(self.line) and self.column == old(self.column)"
NOT_AT_END = "self.index + 1 < len(S(self))"          # the current character is not the NUL sentinel
WS = "'\\0 \\t\\r\\n\\x85\\u2028\\u2029'"
BRKZ = "'\\0\\r\\n\\x85\\u2028\\u2029'"


def cur_is(chars):
    def f(cx):
        S = _S(cx)
        i = iv(cx.ev('self.index').t)
        return z3.Or(*[at(S, i) == z3.StringVal(c) for c in chars])
    f.__name__ = 'the current character is one of %r' % chars
    return f


def sc(name, **kw):
    kw.setdefault('props', ['C03'])
    kw.setdefault('axioms', [pos_defs])
    kw['requires'] = [inv_reader] + list(kw.get('requires', []))
    kw['ensures'] = [inv_reader] + list(kw.get('ensures', []))
    lb = {0: 'inv_reader'}
    for k, v in (kw.get('labels') or {}).items():
        lb[k + 1] = v
    kw['labels'] = lb
    kw.setdefault('raises', RAISES)
    kw.setdefault('raises_any', True)
    contract(SC + name, **kw)


# ---- look-ahead predicates: never move the position
sc('check_directive', props=['C03', 'C12'], ensures=[POS_SAME], labels={0: 'position-unchanged'}, modifies=[], raises=[], raises_any=False)
for _n, _m in [('check_document_start', '---'), ('check_document_end', '...')]:
    sc(_n, props=['C03', 'C12'],
       ensures=[POS_SAME,
                # C12: a document marker is only recognised at the start of a line, followed by white space / break / end of input
                "result ==> (self.column == 0 and S(self)[self.index] == '%s' and S(self)[self.index + 1] == '%s' and S(self)[self.index + 2] == '%s' and S(self)[self.index + 3] in %s)" % (_m[0], _m[1], _m[2], WS)],
       labels={0: 'position-unchanged', 1: 'marker-only-at-column-0-followed-by-space'}, modifies=MODR)
for _n in ['check_block_entry', 'check_key', 'check_value', 'check_plain']:
    sc(_n, requires=[NOT_AT_END], ensures=[POS_SAME], labels={0: 'position-unchanged'}, modifies=MODR)

# ---- line breaks
sc('scan_line_break', props=['C03', 'C09', 'C07'], result='str',
   ensures=["result == '\\n' or result == '\\u2028' or result == '\\u2029' or result == ''",
            "result == '' ==> (%s)" % POS_SAME,
            "old(S(self)[self.index]) in '\\r\\n\\x85\\u2028\\u2029' ==> result != ''",
            # CR LF is ONE break (two characters consumed), every other break is one character
            "(old(S(self)[self.index]) == '\\r' and old(S(self)[self.index + 1]) == '\\n') ==> self.index == old(self.index) + 2",
            "(result != '' and not (old(S(self)[self.index]) == '\\r' and old(S(self)[self.index + 1]) == '\\n')) ==> self.index == old(self.index) + 1",
            "result != '' ==> (self.column == 0 and self.line == old(self.line) + 1)"],
   labels={0: 'normalised-break', 1: 'no-break-nothing-consumed', 2: 'a-break-is-always-consumed', 3: 'crlf-is-one-break', 4: 'single-character-break', 5: 'new-line-position'},
   modifies=MODF)

# ---- block scalar header
sc('scan_block_scalar_indicators', result='tuple',
   ensures=["len(result) == 2", "result[0] is None or typeis(result[0], 'bool')",
            "result[1] is None or (typeis(result[1], 'int') and 1 <= result[1] and result[1] <= 9)",
            "S(self)[self.index] in %s" % "'\\0 \\r\\n\\x85\\u2028\\u2029'", "self.index >= old(self.index) and self.index <= old(self.index) + 2"],
   labels={0: 'pair', 1: 'chomping-flag', 2: 'indentation-1-to-9', 3: 'stops-before-space-or-break', 4: 'at-most-two-indicator-characters'},
   modifies=MODF)

_SKIP_INV = [inv_reader, "self.index >= old(self.index)"]
for _n in ['scan_block_scalar_ignored_line', 'scan_directive_ignored_line']:
    sc(_n, props=['C03', 'C20'], ensures=["self.index >= old(self.index)"], labels={0: 'only-moves-forward'},
       invariants={0: _SKIP_INV, 1: _SKIP_INV}, variants={0: "len(S(self)) - self.index", 1: "len(S(self)) - self.index"}, modifies=MODF)

sc('scan_block_scalar_indentation', props=['C03', 'C20'], result='tuple',
   ensures=["len(result) == 3", "self.index >= old(self.index)"], labels={0: 'triple', 1: 'only-moves-forward'},
   invariants={0: _SKIP_INV + ["typeis(chunks, 'list') and typeis(max_indent, 'int') and typeis(end_mark, 'obj:yaml.error.Mark')"]},
   variants={0: "len(S(self)) - self.index"}, modifies=MODF)

sc('scan_block_scalar_breaks', props=['C03', 'C20'], params={'indent': 'int'}, result='tuple',
   ensures=["len(result) == 2", "self.index >= old(self.index)"], labels={0: 'pair', 1: 'only-moves-forward'},
   invariants={0: _SKIP_INV, 1: _SKIP_INV + ["typeis(chunks, 'list')"], 2: _SKIP_INV + ["typeis(chunks, 'list')", "self.index >= before_loop(self.index)"]},
   variants={0: "len(S(self)) - self.index", 1: "len(S(self)) - self.index", 2: "len(S(self)) - self.index"}, modifies=MODF)

# ---- quoted scalars: white space and line folding between the text runs (C12: a document marker inside a quoted scalar is an error, it
#      never becomes content; C03: only ScannerError; C20: a character per iteration)
sc('scan_flow_scalar_breaks', props=['C03', 'C12', 'C20'], params={'double': 'bool'}, result='list',
   ensures=["self.index >= old(self.index)", "typeis(result, 'list')"], labels={0: 'only-moves-forward', 1: 'a-list-of-chunks'},
   invariants={0: _SKIP_INV + ["typeis(chunks, 'list')"], 1: _SKIP_INV + ["typeis(chunks, 'list')", "self.index >= before_loop(self.index)"]},
   # three characters that spell a marker are not the NUL sentinel: the fourth one may be looked at (stated once, where the state is simple)
   cuts=[("prefix = self.prefix(3)", ["(prefix == '---' or prefix == '...') ==> self.index + 3 < len(S(self))"])],
   variants={0: "len(S(self)) - self.index", 1: "len(S(self)) - self.index"}, modifies=MODF)
sc('scan_flow_scalar_spaces', props=['C03', 'C20'], params={'double': 'bool'}, result='list',
   ensures=["self.index >= old(self.index)", "typeis(result, 'list')"], labels={0: 'only-moves-forward', 1: 'a-list-of-chunks'},
   invariants={0: [inv_reader, POS_SAME, "length >= 0 and self.index + length < len(S(self))",
                   "forall(j, 0, length, S(self)[self.index + j] in ' \\t')"]},
   variants={0: "len(S(self)) - self.index - length"}, modifies=MODF)

# ---- a node tag: !<uri>, !, !suffix, !handle!suffix
sc('scan_tag', props=['C03', 'C09', 'C20'], requires=[NOT_AT_END], result='obj:yaml.tokens.TagToken',
   ensures=["self.index > old(self.index)", "typeis(result.value, 'tuple') and len(result.value) == 2",
            "result.start_mark.index == old(self.index) and result.start_mark.index <= result.end_mark.index and result.end_mark.index == self.index",
            "S(self)[self.index] in %s" % "'\\0 \\r\\n\\x85\\u2028\\u2029'"],
   labels={0: 'moves-forward', 1: 'handle-suffix-pair', 2: 'marks-ordered-and-inside-what-was-consumed', 3: 'stops-before-space-or-break'},
   invariants={0: [inv_reader, POS_SAME, "length >= 1 and self.index + length < len(S(self))", "ch == S(self)[self.index + length]",
                   "forall(j, 0, length, S(self)[self.index + j] not in '\\0')", "typeis(use_handle, 'bool')",
                   "exact(start_mark, 'yaml.error.Mark') and start_mark.index == self.index"]},
   variants={0: "len(S(self)) - self.index - length"}, modifies=MODF)

# ---- a whole directive line: the token a %YAML line produces carries the pair of numbers the parser unpacks (process_directives);
#      C09: the marks are ordered and the token starts where the scanner stood
sc('scan_directive', props=['C03', 'C09', 'C20'], requires=[NOT_AT_END], result='obj:yaml.tokens.DirectiveToken',
   ensures=["self.index > old(self.index)",
            "result.name == 'YAML' ==> (typeis(result.value, 'tuple') and len(result.value) == 2 and typeis(result.value[0], 'int') and typeis(result.value[1], 'int'))",
            "result.name == 'TAG' ==> (typeis(result.value, 'tuple') and len(result.value) == 2 and typeis(result.value[0], 'str') and typeis(result.value[1], 'str'))",
            "result.start_mark.index == old(self.index) and result.start_mark.index <= result.end_mark.index and result.end_mark.index <= self.index"],
   labels={0: 'moves-forward', 1: 'yaml-directive-carries-two-numbers', 2: 'tag-directive-carries-handle-and-prefix', 3: 'marks-ordered-and-inside-what-was-consumed'},
   invariants={0: _SKIP_INV + ["typeis(name, 'str') and value is None", "exact(start_mark, 'yaml.error.Mark') and exact(end_mark, 'yaml.error.Mark')",
                               "start_mark.index == old(self.index) and start_mark.index < end_mark.index and end_mark.index <= self.index"]},
   variants={0: "len(S(self)) - self.index"}, modifies=MODF)

# ---- directive name and %YAML value
_NAME_INV = [inv_reader, POS_SAME, "length >= 0 and self.index + length < len(S(self))", "ch == S(self)[self.index + length]",
             "forall(j, 0, length, S(self)[self.index + j] not in '\\0')"]
sc('scan_directive_name', props=['C03', 'C20'], result='str',
   ensures=["self.index > old(self.index)", "S(self)[self.index] in %s" % "'\\0 \\r\\n\\x85\\u2028\\u2029'"],
   labels={0: 'at-least-one-character-consumed', 1: 'stops-before-space-or-break'},
   invariants={0: _NAME_INV}, variants={0: "len(S(self)) - self.index - length"}, modifies=MODF)
sc('scan_yaml_directive_value', props=['C03', 'C20'], result='tuple',
   ensures=["len(result) == 2 and typeis(result[0], 'int') and typeis(result[1], 'int')", "self.index > old(self.index)",
            "S(self)[self.index] in %s" % "'\\0 \\r\\n\\x85\\u2028\\u2029'"],
   labels={0: 'a-pair-of-numbers', 1: 'moves-forward', 2: 'stops-before-space-or-break'},
   invariants={0: _SKIP_INV}, variants={0: "len(S(self)) - self.index"}, modifies=MODF)

# ---- tag handles and tag URIs (directives and node tags)
sc('scan_tag_handle', props=['C03', 'C20'], params={'name': 'str'}, result='str',
   ensures=["self.index > old(self.index)", "len(result) >= 1"], labels={0: 'at-least-one-character-consumed', 1: 'non-empty-handle'},
   invariants={0: [inv_reader, POS_SAME, "length >= 1 and self.index + length < len(S(self))", "ch == S(self)[self.index + length]",
                   "forall(j, 0, length, S(self)[self.index + j] not in '\\0')"]},
   variants={0: "len(S(self)) - self.index - length"}, modifies=MODF)
sc('scan_tag_uri', props=['C03'], params={'name': 'str'}, result='str',
   ensures=["self.index >= old(self.index)"], labels={0: 'only-moves-forward'},
   invariants={0: [inv_reader, "self.index >= old(self.index)", "length >= 0 and self.index + length < len(S(self))", "ch == S(self)[self.index + length]",
                   "forall(j, 0, length, S(self)[self.index + j] not in '\\0')", "typeis(chunks, 'list')",
                   "forall(j, 0, len(chunks), typeis(chunks[j], 'str'))"]},
   modifies=MODF)
sc('scan_tag_directive_handle', props=['C03'], result='str', ensures=["self.index > old(self.index)", "S(self)[self.index] == ' '"],
   labels={0: 'moves-forward', 1: 'followed-by-a-space'}, modifies=MODF)
sc('scan_tag_directive_prefix', props=['C03'], result='str', ensures=["self.index >= old(self.index)", "S(self)[self.index] in %s" % "'\\0 \\r\\n\\x85\\u2028\\u2029'"],
   labels={0: 'only-moves-forward', 1: 'stops-before-space-or-break'}, modifies=MODF)
sc('scan_tag_directive_value', props=['C03', 'C20'], result='tuple',
   ensures=["len(result) == 2 and typeis(result[0], 'str') and typeis(result[1], 'str')", "self.index > old(self.index)"],
   labels={0: 'a-pair-of-texts', 1: 'moves-forward'},
   invariants={0: _SKIP_INV, 1: _SKIP_INV + ["typeis(handle, 'str')", "self.index > old(self.index)"]}, variants={0: "len(S(self)) - self.index", 1: "len(S(self)) - self.index"}, modifies=MODF)

# ---- %YAML version number: digits only
sc('scan_yaml_directive_number', result='int',
   ensures=["self.index > old(self.index)"], labels={0: 'at-least-one-digit-consumed'},
   invariants={0: [inv_reader, POS_SAME, "length >= 0 and self.index + length < len(S(self))",
                   "forall(j, 0, length, '0' <= S(self)[self.index + j] and S(self)[self.index + j] <= '9')"]},
   variants={0: "len(S(self)) - self.index - length"}, modifies=MODF)

# ---- %XX escapes in tags: two hex digits each, decoded as UTF-8
sc('scan_uri_escapes', result='str',
   ensures=["self.index >= old(self.index)"], labels={0: 'only-moves-forward'},
   invariants={0: [inv_reader, "self.index >= old(self.index)", "typeis(codes, 'list')",
                   "forall(j, 0, len(codes), typeis(codes[j], 'int') and 0 <= codes[j] and codes[j] <= 255)"],
               1: [inv_reader, "self.index >= old(self.index)", "typeis(codes, 'list')", "self.index + loop_i < len(S(self))",
                   "forall(j, 0, len(codes), typeis(codes[j], 'int') and 0 <= codes[j] and codes[j] <= 255)",
                   "forall(j, 0, loop_i, S(self)[self.index + j] in '0123456789ABCDEFabcdef')"]},
   variants={0: "len(S(self)) - self.index"}, modifies=MODF)

# ---------------------------------------------------------------------------------------------------------------- C18 / C20
# the simple-key bookkeeping that bounds token look-ahead: candidates expire after one line / 1024 characters, and more tokens are
# fetched only while the queue is empty or a candidate still points at the token about to be handed out
fields('yaml.scanner.SimpleKey', token_number='int', required='bool', index='int', line='int', column='int', mark='obj:yaml.error.Mark')
define('inv_psk', ['s'], "heapobj(s.possible_simple_keys) and forall_v(k, haskey(s.possible_simple_keys, k) ==> exact(dget(s.possible_simple_keys, k), 'yaml.scanner.SimpleKey'))")
define('KEY', ['s', 'k'], "as_(dget(s.possible_simple_keys, k), 'obj:yaml.scanner.SimpleKey')")

contract(SC + 'next_possible_simple_key', props=['C18', 'C20'],
    requires=["inv_psk(self)"], result='opt:int',
    ensures=["len(self.possible_simple_keys) == 0 ==> result is None",
             "len(self.possible_simple_keys) > 0 ==> result is not None",
             # the minimum over all pending candidates
             "result is not None ==> forall(j, 0, len(keys(self.possible_simple_keys)), result <= KEY(self, keys(self.possible_simple_keys)[j]).token_number)"],
    labels={0: 'none-without-candidates', 1: 'some-with-candidates', 2: 'lower-bound-of-all-candidates'},
    invariants={0: ["inv_psk(self)", "(min_token_number is None) == (loop_i == 0)", "min_token_number is None or typeis(min_token_number, 'int')",
                    "min_token_number is not None ==> forall(j, 0, loop_i, min_token_number <= KEY(self, loop_seq[j]).token_number)"]},
    modifies=[], raises=[])

contract(SC + 'stale_possible_simple_keys', props=['C18', 'C20'], axioms=[pos_defs],
    requires=[inv_reader, "inv_psk(self)"],
    ensures=["inv_psk(self)",
             # C18/C20: afterwards every candidate that was pending is on the current line and at most 1024 characters back
             "forall(j, 0, old(len(keys(self.possible_simple_keys))), haskey(self.possible_simple_keys, old(keys(self.possible_simple_keys))[j]) ==> "
             "(KEY(self, old(keys(self.possible_simple_keys))[j]).line == self.line and self.index - KEY(self, old(keys(self.possible_simple_keys))[j]).index <= 1024))",
             "forall_v(k, haskey(self.possible_simple_keys, k) ==> (old(haskey(self.possible_simple_keys, k)) and dget(self.possible_simple_keys, k) is old(dget(self.possible_simple_keys, k))))",
             "self.index == old(self.index) and self.line == old(self.line)"],
    labels={0: 'inv_psk', 1: 'survivors-are-on-this-line-and-within-1024-characters', 2: 'only-removes-candidates', 3: 'position-unchanged'},
    invariants={0: ["inv_psk(self)", inv_reader, "self.index == old(self.index) and self.line == old(self.line)",
                    "forall_v(k, haskey(self.possible_simple_keys, k) ==> (old(haskey(self.possible_simple_keys, k)) and dget(self.possible_simple_keys, k) is old(dget(self.possible_simple_keys, k))))",
                    "forall(j, 0, loop_i, haskey(self.possible_simple_keys, loop_seq[j]) ==> (KEY(self, loop_seq[j]).line == self.line and self.index - KEY(self, loop_seq[j]).index <= 1024))",
                    "loop_seq == old(keys(self.possible_simple_keys))",
                    "forall(j, loop_i, len(loop_seq), haskey(self.possible_simple_keys, loop_seq[j]))"]},
    modifies=['self.possible_simple_keys[]'], raises=[SERR])

contract(SC + 'need_more_tokens', props=['C18', 'C20'], axioms=[pos_defs],
    requires=[inv_reader, "inv_psk(self)"], result='opt:bool',
    ensures=["inv_psk(self)",
             "self.done ==> not result",
             "(not self.done and len(self.tokens) == 0) ==> result",
             # C18: with a token ready, more input is looked at only while some simple-key candidate is still pending
             "(result and len(self.tokens) > 0) ==> len(self.possible_simple_keys) > 0"],
    labels={0: 'inv_psk', 1: 'never-after-stream-end', 2: 'always-when-the-queue-is-empty', 3: 'otherwise-only-while-a-candidate-is-pending'},
    modifies=['self.possible_simple_keys[]'], raises=[SERR])

# ---- registering / dropping a simple-key candidate (C18: a candidate always points at the token about to be scanned, at the current
#      position; C03: a required key that cannot be one is a ScannerError)
contract(SC + 'remove_possible_simple_key', props=['C18', 'C03', 'C20'], axioms=[pos_defs],
    requires=[inv_reader, "inv_psk(self)"],
    ensures=["inv_psk(self)", "not haskey(self.possible_simple_keys, self.flow_level)",
             "forall_v(k, haskey(self.possible_simple_keys, k) ==> (old(haskey(self.possible_simple_keys, k)) and dget(self.possible_simple_keys, k) is old(dget(self.possible_simple_keys, k))))",
             "forall_v(k, (old(haskey(self.possible_simple_keys, k)) and k != self.flow_level) ==> haskey(self.possible_simple_keys, k))"],
    labels={0: 'inv_psk', 1: 'no-candidate-at-this-level', 2: 'only-removes-candidates', 3: 'other-levels-keep-theirs'},
    modifies=['self.possible_simple_keys[]'], raises=[SERR])
contract(SC + 'save_possible_simple_key', props=['C18', 'C03', 'C20'], axioms=[pos_defs],
    requires=[inv_reader, "inv_psk(self)", "typeis(self.tokens, 'list')"],
    ensures=["inv_psk(self)",
             "self.allow_simple_key ==> (haskey(self.possible_simple_keys, self.flow_level) and KEY(self, self.flow_level).token_number == self.tokens_taken + len(self.tokens) "
             "and KEY(self, self.flow_level).index == self.index and KEY(self, self.flow_level).line == self.line and KEY(self, self.flow_level).column == self.column)",
             "not self.allow_simple_key ==> forall_v(k, haskey(self.possible_simple_keys, k) == old(haskey(self.possible_simple_keys, k)))",
             "self.index == old(self.index) and self.line == old(self.line)"],
    labels={0: 'inv_psk', 1: 'candidate-points-at-the-next-token-and-the-current-position', 2: 'nothing-registered-when-keys-are-not-allowed', 3: 'position-unchanged'},
    modifies=['self.possible_simple_keys[]'], raises=[SERR])

# ---- between tokens: spaces, comments and line breaks are skipped; a BOM only at the very start of the input (C07)
sc('scan_to_next_token', props=['C03', 'C07', 'C20'],
   ensures=["self.index >= old(self.index)"], labels={0: 'only-moves-forward'},
   invariants={0: _SKIP_INV + ["typeis(found, 'bool')"],
               1: _SKIP_INV + ["typeis(found, 'bool') and not found", "self.index >= before_loop(self.index)"],
               2: _SKIP_INV + ["typeis(found, 'bool') and not found", "self.index >= before_loop(self.index)"]},
   variants={1: "len(S(self)) - self.index", 2: "len(S(self)) - self.index"}, modifies=MODF + ['self.allow_simple_key'])

# ---- block indentation: a deeper column pushes the current indent (C09: BLOCK-*-START tokens are issued exactly when this returns True)
contract(SC + 'add_indent', props=['C03', 'C09'], params={'column': 'int'},
    requires=["typeis(self.indents, 'list')"], result='bool',
    ensures=["result == (old(self.indent) < column)",
             "result ==> (self.indent == column and seq(self.indents) == old(seq(self.indents)) + [old(self.indent)])",
             "not result ==> (self.indent == old(self.indent) and seq(self.indents) == old(seq(self.indents)))"],
    labels={0: 'true-iff-deeper', 1: 'previous-indent-pushed', 2: 'otherwise-nothing-changes'},
    modifies=['self.indent', 'self.indents[]'], raises=[])
