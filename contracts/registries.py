"""C10 (and the table half of C01/C04): copy-on-write registries over an arbitrary class lattice.

Class-table memory model (DESIGN 5/C10): own:<name>[c] says class c has its own attribute <name>;
f:<name>[c] is its value; cpos_<name>(c, d) is the position of d in the registry-bearing chain of c
(-1 when d is not on it).  Attribute lookup on a class finds the first owner along its chain.
"""
import z3
from pyvc.spec import contract, fields, define, REG
from pyvc.z3v import *

fields('symclass', yaml_constructors='dict', yaml_multi_constructors='dict', yaml_representers='dict',
       yaml_multi_representers='dict', yaml_path_resolvers='dict', yaml_implicit_resolvers='dict')


def lattice(name):
    """linear(name) lattice + inv_tables(name): own tables of distinct classes are distinct dict objects"""
    def f(cx):
        ex, st = cx.ex, cx.st
        pos = ex.cpos(name)
        own = ex.harr(st, 'own:' + name)
        fld = ex.harr(st, 'f:' + name)
        c, d, e = z3.Ints('c d e')
        root = z3.Int('root_' + name)
        return z3.And(
            z3.ForAll([c], pos(c, c) == 0),
            z3.ForAll([c, d], pos(c, d) >= -1),
            z3.ForAll([c, d, e], z3.Implies(z3.And(pos(c, d) >= 0, pos(c, e) >= 0, pos(c, d) == pos(c, e)), d == e)),
            z3.ForAll([c, d, e], z3.Implies(pos(c, d) >= 0, z3.And(
                z3.Implies(pos(d, e) >= 0, z3.And(pos(c, e) >= 0, pos(c, e) == pos(c, d) + pos(d, e))),
                z3.Implies(pos(c, e) >= pos(c, d), pos(d, e) == pos(c, e) - pos(c, d))))),
            z3.ForAll([c], pos(c, root) >= 0), z3.Select(own, root),
            z3.ForAll([c, d], z3.Implies(z3.And(z3.Select(own, c), z3.Select(own, d), z3.Select(fld, c) == z3.Select(fld, d)), c == d)),
            z3.ForAll([c], z3.Implies(z3.Select(own, c), z3.And(is_r(z3.Select(fld, c)), typ(rv(z3.Select(fld, c))) == 2,
                                                               rv(z3.Select(fld, c)) >= 0, rv(z3.Select(fld, c)) < st.alloc))),
        )
    f.__name__ = 'lattice(%s)' % name
    return f


def owner_axioms(ex, st, name, owner):
    pos = ex.cpos(name)
    own = ex.harr(st, 'own:' + name)
    c, d = z3.Ints('c d')
    return z3.And(z3.ForAll([c], z3.And(z3.Select(own, owner(c)), pos(c, owner(c)) >= 0)),
                  z3.ForAll([c, d], z3.Implies(z3.And(z3.Select(own, d), pos(c, d) >= 0), pos(c, owner(c)) <= pos(c, d))))


def view_update(name, key_expr, val_expr):
    """for EVERY class x: its effective table afterwards is the old one, updated at the key iff lookup on x now
    finds cls's own table; and no dict object that existed before is written except cls's own table."""
    def f(cx):
        ex, st, old = cx.ex, cx.st, cx.old
        pos = ex.cpos(name)
        o0 = z3.Function('owner_pre_' + name, z3.IntSort(), z3.IntSort())
        o1 = z3.Function('owner_post_' + name, z3.IntSort(), z3.IntSort())
        ax = z3.And(owner_axioms(ex, old, name, o0), owner_axioms(ex, st, name, o1))
        cls = rv(old.env['cls'].t)
        key = cx.ev(key_expr).t
        val = cx.ev(val_expr).t
        x = z3.Int('x_any_class')
        f0, f1 = ex.harr(old, 'f:' + name), ex.harr(st, 'f:' + name)
        has0, has1 = ex.harr(old, '$dhas'), ex.harr(st, '$dhas')
        val0, val1 = ex.harr(old, '$dval'), ex.harr(st, '$dval')
        r0 = rv(z3.Select(f0, o0(x)))
        r1 = rv(z3.Select(f1, o1(x)))
        becomes = z3.And(pos(x, cls) >= 0, pos(x, cls) <= pos(x, o0(x)))
        view = z3.And(
            o1(x) == z3.If(becomes, cls, o0(x)),
            z3.Select(has1, r1) == z3.If(becomes, z3.Store(z3.Select(has0, r0), key, True), z3.Select(has0, r0)),
            z3.Select(val1, r1) == z3.If(becomes, z3.Store(z3.Select(val0, r0), key, val), z3.Select(val0, r0)))
        own0 = ex.harr(old, 'own:' + name)
        ref = z3.Int('any_old_dict')
        untouched = z3.Implies(z3.And(ref < old.alloc, z3.Not(z3.And(z3.Select(own0, cls), ref == rv(z3.Select(f0, cls))))),
                               z3.And(z3.Select(has1, ref) == z3.Select(has0, ref), z3.Select(val1, ref) == z3.Select(val0, ref)))
        return z3.Implies(ax, z3.And(view, untouched))
    f.__name__ = 'view_update(%s)' % name
    return f


def others_unchanged(name):
    """own/f of every class other than cls is untouched"""
    def f(cx):
        ex, st, old = cx.ex, cx.st, cx.old
        cls = rv(old.env['cls'].t)
        c = z3.Int('c_other')
        return z3.Implies(c != cls, z3.And(
            z3.Select(ex.harr(st, 'own:' + name), c) == z3.Select(ex.harr(old, 'own:' + name), c),
            z3.Select(ex.harr(st, 'f:' + name), c) == z3.Select(ex.harr(old, 'f:' + name), c)))
    return f


def cow_contract(qual, name, keyp, valp, props):
    contract(qual, props=props,
             params={'cls': 'symclass'},
             requires=[lattice(name), 'hashable(%s)' % keyp],
             ensures=[view_update(name, keyp, valp), lattice(name), others_unchanged(name),
                      lambda cx: z3.Select(cx.ex.harr(cx.st, 'own:' + name), rv(cx.old.env['cls'].t))],
             labels={0: 'view-of-every-class', 1: 'inv_tables-preserved', 2: 'other-classes-untouched', 3: 'cls-owns-its-table'},
             modifies=['own:' + name, 'cls.' + name, '$dhas', '$dval', '$dkeys'],
             raises=[])


cow_contract('yaml.constructor.BaseConstructor.add_constructor', 'yaml_constructors', 'tag', 'constructor', ['C10', 'C01', 'C04'])
cow_contract('yaml.constructor.BaseConstructor.add_multi_constructor', 'yaml_multi_constructors', 'tag_prefix', 'multi_constructor', ['C10', 'C01', 'C04'])
cow_contract('yaml.representer.BaseRepresenter.add_representer', 'yaml_representers', 'data_type', 'representer', ['C10'])
cow_contract('yaml.representer.BaseRepresenter.add_multi_representer', 'yaml_multi_representers', 'data_type', 'representer', ['C10'])


# ---- add_implicit_resolver: the same copy-on-write rule one level deeper.  The table maps a leading character to a LIST of
# (tag, regexp) pairs and the registration appends to lists, so the first own table of a class must copy every list, not only the dict:
#   vals_lists : every value of every own table is an allocated list object
#   sep        : tables of two different classes share no list object ("customising one class never changes another", at depth 2)
# Contract: both are preserved; cls owns its table afterwards; no other class's own/f entry changes; no dict that existed before is
# written except cls's own table; NO LIST that existed before is written except the lists that were values of cls's own table.
IR = 'yaml_implicit_resolvers'


def _tabs(ex, st):
    return ex.harr(st, 'own:' + IR), ex.harr(st, 'f:' + IR), ex.harr(st, '$dhas'), ex.harr(st, '$dval'), ex.harr(st, '$seq')


def ir_vals_lists(cx):
    ex, st = cx.ex, cx.st
    own, fld, has, val, _ = _tabs(ex, st)
    c = z3.Int('vl_c'); k = z3.Const('vl_k', V)
    t = rv(z3.Select(fld, c))
    v = z3.Select(z3.Select(val, t), k)
    return z3.ForAll([c, k], z3.Implies(z3.And(z3.Select(own, c), z3.Select(z3.Select(has, t), k)),
                                        z3.And(is_r(v), typ(rv(v)) == 1, rv(v) >= 0, rv(v) < st.alloc)))


ir_vals_lists.__name__ = 'vals_lists: every value of every own implicit-resolver table is a list object'


def ir_sep(cx):
    ex, st = cx.ex, cx.st
    own, fld, has, val, _ = _tabs(ex, st)
    c, d = z3.Ints('sp_c sp_d'); k1 = z3.Const('sp_k1', V); k2 = z3.Const('sp_k2', V)
    tc, td = rv(z3.Select(fld, c)), rv(z3.Select(fld, d))
    return z3.ForAll([c, d, k1, k2], z3.Implies(
        z3.And(c != d, z3.Select(own, c), z3.Select(own, d), z3.Select(z3.Select(has, tc), k1), z3.Select(z3.Select(has, td), k2)),
        z3.Select(z3.Select(val, tc), k1) != z3.Select(z3.Select(val, td), k2)))


ir_sep.__name__ = 'sep: the implicit-resolver tables of two different classes share no list'


def ir_frame(cx):
    """nothing that existed is written, except cls's own table and the lists that were its values"""
    ex, st, old = cx.ex, cx.st, cx.old
    own0, f0, has0, val0, seq0 = _tabs(ex, old)
    own1, f1, has1, val1, seq1 = _tabs(ex, st)
    cls = rv(old.env['cls'].t)
    t0 = rv(z3.Select(f0, cls))
    owned = z3.Select(own0, cls)
    ref = z3.Int('fr_ref'); k = z3.Const('fr_k', V)
    dicts = z3.ForAll([ref], z3.Implies(z3.And(ref < old.alloc, z3.Not(z3.And(owned, ref == t0))),
                                        z3.And(z3.Select(has1, ref) == z3.Select(has0, ref), z3.Select(val1, ref) == z3.Select(val0, ref))),
                      patterns=[z3.Select(has0, ref), z3.Select(val0, ref)])
    was_value = z3.Exists([k], z3.And(z3.Select(z3.Select(has0, t0), k), z3.Select(z3.Select(val0, t0), k) == mk_r(ref)))
    lists = z3.ForAll([ref], z3.Implies(z3.And(ref < old.alloc, z3.Not(z3.And(owned, was_value))), z3.Select(seq1, ref) == z3.Select(seq0, ref)),
                      patterns=[z3.Select(seq0, ref)])
    return z3.And(dicts, lists)


ir_frame.__name__ = 'frame: only the own table of cls and the lists that were its values are written'


def ir_provenance(cx):
    """every list in the table cls now owns was either created by this call or was already a value of cls's own table"""
    ex, st, old = cx.ex, cx.st, cx.old
    own0, f0, has0, val0, seq0 = _tabs(ex, old)
    own1, f1, has1, val1, seq1 = _tabs(ex, st)
    cls = rv(old.env['cls'].t)
    t0, t1 = rv(z3.Select(f0, cls)), rv(z3.Select(f1, cls))
    k = z3.Const('pv_k', V)
    v = z3.Select(z3.Select(val1, t1), k)
    k0 = z3.Const('pv_k0', V)
    return z3.ForAll([k], z3.Implies(z3.Select(z3.Select(has1, t1), k),
                                     z3.Or(rv(v) >= old.alloc,
                                           z3.And(z3.Select(own0, cls), z3.Exists([k0], z3.And(z3.Select(z3.Select(has0, t0), k0), z3.Select(z3.Select(val0, t0), k0) == v))))))


ir_provenance.__name__ = 'provenance: the lists of the table of cls are new or were its own'

def ir_new_table_ok(cx):
    """every value of the private copy under construction is a list created by this call"""
    ex, st, old = cx.ex, cx.st, cx.old
    own1, f1, has1, val1, seq1 = _tabs(ex, st)
    t = rv(cx.ev('implicit_resolvers').t)
    k = z3.Const('nt_k', V)
    v = z3.Select(z3.Select(val1, t), k)
    return z3.ForAll([k], z3.Implies(z3.Select(z3.Select(has1, t), k), z3.And(is_r(v), typ(rv(v)) == 1, rv(v) >= old.alloc, rv(v) < st.alloc)))


ir_new_table_ok.__name__ = 'every value of the private copy is a list created by this call'


def ir_untouched_so_far(cx):
    """while the private copy is being built nothing that existed at entry has been written and no class attribute has changed"""
    ex, st, old = cx.ex, cx.st, cx.old
    own0, f0, has0, val0, seq0 = _tabs(ex, old)
    own1, f1, has1, val1, seq1 = _tabs(ex, st)
    ref = z3.Int('us_ref')
    return z3.And(own1 == own0, f1 == f0,
                  z3.ForAll([ref], z3.Implies(ref < old.alloc, z3.And(z3.Select(has1, ref) == z3.Select(has0, ref), z3.Select(val1, ref) == z3.Select(val0, ref),
                                                                      z3.Select(seq1, ref) == z3.Select(seq0, ref))),
                            patterns=[z3.Select(has0, ref), z3.Select(val0, ref), z3.Select(seq0, ref)]))


ir_untouched_so_far.__name__ = 'nothing that existed at entry has been written yet'

contract('yaml.resolver.BaseResolver.add_implicit_resolver', props=['C10'], split_loops=True,
         params={'cls': 'symclass', 'tag': 'str', 'first': 'opt:list'},
         requires=[lattice(IR), ir_vals_lists, ir_sep, "first is None or forall(i, 0, len(as_(first, 'list')), hashable(as_(first, 'list')[i]))"],
         ensures=[lambda cx: z3.Select(cx.ex.harr(cx.st, 'own:' + IR), rv(cx.old.env['cls'].t)), others_unchanged(IR), lattice(IR),
                  ir_vals_lists, ir_sep, ir_frame],
         labels={0: 'cls-owns-its-table', 1: 'other-classes-untouched', 2: 'inv_tables-preserved', 3: 'vals_lists-preserved', 4: 'sep-preserved',
                 5: 'only-own-table-and-own-lists-written'},
         invariants={0: ["typeis(implicit_resolvers, 'dict') and fresh(implicit_resolvers)",
                         ir_new_table_ok,
                         ir_untouched_so_far],
                     1: [lambda cx: z3.Select(cx.ex.harr(cx.st, 'own:' + IR), rv(cx.old.env['cls'].t)), others_unchanged(IR), lattice(IR),
                         ir_vals_lists, ir_sep, ir_frame, "forall(i, 0, len(loop_seq), hashable(loop_seq[i]))", ir_provenance]},
         modifies=['own:' + IR, 'cls.' + IR, '$dhas', '$dval', '$dkeys', '$seq'],
         raises=[])
