#!/bin/sh
# run every registered check of one tier, a few at a time; prints one line per check.  usage: tools/run_all.sh [quick|thorough] [par]
cd "$(dirname "$0")/.."
tier=${1:-quick}; par=${2:-3}
ids=$(python3 -c "import json; print(' '.join(c['property_id'] for c in json.load(open('MANIFEST.json'))['checks']))")
mkdir -p /tmp/pyvc-runall
printf '%s\n' $ids | xargs -P "$par" -I{} sh -c "s=\$(date +%s); ./check {} --tier $tier > /tmp/pyvc-runall/{}.$tier.log 2>&1; rc=\$?; echo {} rc=\$rc \$((\$(date +%s)-s))s \$(grep -c '^VIOLATION' /tmp/pyvc-runall/{}.$tier.log) violations; "
