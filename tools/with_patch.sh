#!/bin/sh
# usage: with_patch.sh <patch.diff> <command...>   -- run command with PYVC_REPO pointing at a scratch copy of /repo with the patch applied
p="$(readlink -f "$1")"; shift
d=$(mktemp -d /tmp/pyvc-scr-XXXXXX)
mkdir -p $d/lib && cp -r /repo/lib/yaml $d/lib/yaml && (cd $d && git init -q . 2>/dev/null; patch -p1 -s < "$p") || { echo "patch failed"; rm -rf $d; exit 9; }
PYVC_REPO=$d "$@"; rc=$?
rm -rf $d
exit $rc
