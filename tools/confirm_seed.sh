#!/bin/sh
# usage: confirm_seed.sh <ID> [<seed name>]  -- confirm an agent-made change in /tmp/wt-<ID>, store under /verif/seeded/<name>
id="$1"; name="${2:-$1}"
wt=/tmp/wt-$id; sd=/tmp/seed-$id
[ -f $sd/patch.diff ] || { echo "$id: no patch"; exit 2; }
git -C /repo apply --check $sd/patch.diff || { echo "$id: patch does not apply to /repo"; exit 2; }
# the worktree must contain exactly this patch
git -C $wt diff > /tmp/wt-$id.diff
tests=$(cd $wt && PYTHONPATH=$wt/lib /venv/bin/python -m pytest -q -p no:cacheprovider 2>&1 | tail -1)
PYTHONPATH=$wt/lib timeout 900 /venv/bin/python $sd/demo.py > /tmp/demo-$id-mut.out 2>&1; rc_mut=$?
PYTHONPATH=/repo/lib timeout 900 /venv/bin/python $sd/demo.py > /tmp/demo-$id-base.out 2>&1; rc_base=$?
echo "$id: tests=[$tests] demo(mutated)=$rc_mut demo(unchanged)=$rc_base"
case "$tests" in *" passed"*) ;; *) echo "$id: TESTS DO NOT PASS"; exit 1;; esac
case "$tests" in *failed*) echo "$id: TESTS FAIL"; exit 1;; esac
[ $rc_mut -ne 0 ] && [ $rc_base -eq 0 ] || { echo "$id: demo does not discriminate"; exit 1; }
mkdir -p /verif/seeded/$name
cp /tmp/wt-$id.diff /verif/seeded/$name/patch.diff
cp $sd/demo.py /verif/seeded/$name/demo.py
cp $sd/notes.md /verif/seeded/$name/notes.md 2>/dev/null
tail -5 /tmp/demo-$id-mut.out > /verif/seeded/$name/demo_output_mutated.txt
echo "{\"tests\": \"$tests\", \"demo_rc_mutated\": $rc_mut, \"demo_rc_unchanged\": $rc_base}" > /verif/seeded/$name/confirm.json
echo "$id: confirmed -> /verif/seeded/$name"
