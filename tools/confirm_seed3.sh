#!/bin/sh
# usage: confirm_seed3.sh <ID>   -- confirm an agent-made change in /tmp/wt3_<ID> (patch, demo.py, notes.md inside), store under /verif/seeded/<ID>-r3
id="$1"; name="$id-r3"
wt=/tmp/wt3_$id; sd=$wt
git -C $wt diff -- lib > /tmp/wt3x-$id.diff
[ -s /tmp/wt3x-$id.diff ] || { echo "$id: empty diff"; exit 2; }
git -C /repo apply --check /tmp/wt3x-$id.diff || { echo "$id: patch does not apply to /repo"; exit 2; }
tests=$(cd $wt && PYTHONPATH=$wt/lib /venv/bin/python -m pytest -q -p no:cacheprovider 2>&1 | tail -1)
PYTHONPATH=$wt/lib timeout 900 /venv/bin/python $sd/demo.py > /tmp/demo3-$id-mut.out 2>&1; rc_mut=$?
PYTHONPATH=/repo/lib timeout 900 /venv/bin/python $sd/demo.py > /tmp/demo3-$id-base.out 2>&1; rc_base=$?
echo "$id: tests=[$tests] demo(mutated)=$rc_mut demo(unchanged)=$rc_base"
case "$tests" in *" passed"*) ;; *) echo "$id: TESTS DO NOT PASS"; exit 1;; esac
case "$tests" in *failed*) echo "$id: TESTS FAIL"; exit 1;; esac
[ $rc_mut -ne 0 ] && [ $rc_base -eq 0 ] || { echo "$id: demo does not discriminate"; exit 1; }
mkdir -p /verif/seeded/$name
cp /tmp/wt3x-$id.diff /verif/seeded/$name/patch.diff
cp $sd/demo.py /verif/seeded/$name/demo.py
cp $sd/notes.md /verif/seeded/$name/notes.md 2>/dev/null
tail -5 /tmp/demo3-$id-mut.out > /verif/seeded/$name/demo_output_mutated.txt
python3 - "$id" "$name" "$tests" $rc_mut $rc_base <<'PY'
import json, sys
id_, name, tests, rm, rb = sys.argv[1:6]
files = [l[6:].strip() for l in open('/verif/seeded/%s/patch.diff' % name) if l.startswith('+++ b/')]
json.dump({'seed_id': name, 'breaks_property': id_, 'made_by': 'independent sub-agent given only the property text and a scratch worktree (round 3)',
           'needs_to_manifest': 'see notes.md',
           'what_i_ran': ['whole test suite on the changed tree: ' + tests, 'demo.py on the changed tree: exit ' + rm, 'demo.py on the unchanged tree: exit ' + rb,
                          'git -C /repo apply --check patch.diff: ok'], 'files_touched': files}, open('/verif/seeded/%s/meta.json' % name, 'w'), indent=1)
PY
echo "$id: confirmed -> /verif/seeded/$name"
git -C /repo worktree remove --force $wt && echo "worktree removed"
