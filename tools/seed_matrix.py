#!/usr/bin/env python3
"""Run the registered quick checks against the seeded changes (on scratch copies of /repo/lib, never /repo itself) and print
which checks raise an alarm.  Only the checks whose contracts read a touched file are run (plus the seed's own property).
usage: seed_matrix.py [seed ...] [--checks=C01,C10] [--all-checks] [--par=3]"""
import os, sys, json, subprocess, tempfile, shutil, re, concurrent.futures as cf
V0 = os.path.dirname(os.path.dirname(os.path.abspath(__file__)))
# work on a snapshot of the machinery so that edits made while the matrix runs do not leak into it
V = tempfile.mkdtemp(prefix='pyvc-matrix-')
for name in ('pyvc', 'contracts', 'bounded', 'seeded'):
    shutil.copytree(os.path.join(V0, name), os.path.join(V, name), ignore=shutil.ignore_patterns('__pycache__'))
for name in ('check', 'MANIFEST.json', 'known_findings.json'):
    shutil.copy(os.path.join(V0, name), os.path.join(V, name))
import atexit
atexit.register(lambda: shutil.rmtree(V, ignore_errors=True))
man = json.load(open(os.path.join(V, 'MANIFEST.json')))
registered = [c['property_id'] for c in man['checks']]
RELEVANT = {
    'emitter.py': ['C02', 'C05', 'C12', 'C15', 'C11', 'C19'], 'parser.py': ['C03', 'C09', 'C11', 'C12'], 'reader.py': ['C07', 'C09', 'C03', 'C19'],
    'constructor.py': ['C01', 'C04', 'C10', 'C13', 'C11', 'C14', 'C17'], 'composer.py': ['C13', 'C03', 'C11'], 'resolver.py': ['C08', 'C10', 'C11', 'C19'],
    'representer.py': ['C10', 'C11', 'C16', 'C19'], 'serializer.py': ['C11', 'C16'], 'scanner.py': ['C03', 'C09', 'C18', 'C20', 'C11'],
    '__init__.py': ['C01', 'C04', 'C10', 'C11', 'C19'], 'loader.py': ['C01', 'C04', 'C10'], 'dumper.py': ['C10'], 'cyaml.py': ['C01', 'C04', 'C10'],
}
args = [a for a in sys.argv[1:] if not a.startswith('--')]
only, par, allc = None, 3, False
for a in sys.argv[1:]:
    if a.startswith('--checks='):
        only = a.split('=', 1)[1].split(',')
    if a.startswith('--par='):
        par = int(a.split('=')[1])
    if a == '--all-checks':
        allc = True
seeds = args or sorted(os.listdir(os.path.join(V, 'seeded')))


def checks_for(seed):
    if only:
        return only
    if allc:
        return registered
    files = re.findall(r'^\+\+\+ b/lib/yaml/(\S+)', open(os.path.join(V, 'seeded', seed, 'patch.diff')).read(), re.M)
    cs = {seed[:3]}
    for f in files:
        cs.update(RELEVANT.get(f, registered))
    return [c for c in registered if c in cs]


def one(seed):
    d = tempfile.mkdtemp(prefix='pyvc-scr-')
    try:
        os.makedirs(d + '/lib')
        shutil.copytree('/repo/lib/yaml', d + '/lib/yaml')
        if os.path.isdir('/repo/yaml'):
            shutil.copytree('/repo/yaml', d + '/yaml')
        p = subprocess.run(['patch', '-p1', '-s', '-i', os.path.join(V, 'seeded', seed, 'patch.diff')], cwd=d, capture_output=True, text=True)
        if p.returncode:
            return seed, {'error': p.stdout + p.stderr}
        env = dict(os.environ, PYVC_REPO=d, PYVC_EVIDENCE_DIR=d + '/evidence', PYVC_REPLAY_DIR=d + '/replays')
        if '--retry' not in sys.argv:
            env['PYVC_NO_RETRY'] = '1'       # faster; but an obligation that only times out under load then shows up as an alarm
        res = {}
        for c in checks_for(seed):
            r = subprocess.run([os.path.join(V, 'check'), c, '--tier', 'quick', '--jobs', '6'], cwd=V, env=env, capture_output=True, text=True)
            vio = [l for l in r.stdout.splitlines() if l.startswith('VIOLATION')]
            res[c] = (r.returncode, len(vio), [re.sub(r'^VIOLATION property=\S+ replay=\S+ ', '', v)[:200] for v in vio[:3]])
        return seed, res
    finally:
        shutil.rmtree(d, ignore_errors=True)


if __name__ == '__main__':
    with cf.ThreadPoolExecutor(par) as ex:
        for seed, res in ex.map(one, seeds):
            if 'error' in res:
                print(seed, 'PATCH ERROR', res['error']); continue
            hits = {c: v for c, v in res.items() if v[0] == 1}
            errs = {c: v for c, v in res.items() if v[0] not in (0, 1)}
            own = seed[:3]
            print('%-8s %s  by=%s  ran=%s%s' % (seed, 'CAUGHT' if hits else 'missed', sorted(hits), sorted(res), ('  ENGINE-ERRORS=%s' % sorted(errs)) if errs else ''), flush=True)
            for c, v in hits.items():
                for line in v[2]:
                    print('        %s %s' % (c, line), flush=True)
