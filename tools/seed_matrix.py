#!/usr/bin/env python3
"""Run every registered quick check against every seeded change (on a scratch copy of /repo/lib, never /repo itself);
print which checks raise an alarm.  usage: seed_matrix.py [seed ...] [--checks C01,C10]"""
import os, sys, json, subprocess, tempfile, shutil, concurrent.futures as cf
V = os.path.dirname(os.path.dirname(os.path.abspath(__file__)))
man = json.load(open(os.path.join(V, 'MANIFEST.json')))
checks = [c['property_id'] for c in man['checks']]
args = [a for a in sys.argv[1:] if not a.startswith('--')]
for a in sys.argv[1:]:
    if a.startswith('--checks='):
        checks = a.split('=', 1)[1].split(',')
seeds = args or sorted(os.listdir(os.path.join(V, 'seeded')))


def one(seed):
    d = tempfile.mkdtemp(prefix='pyvc-scr-')
    try:
        os.makedirs(d + '/lib')
        shutil.copytree('/repo/lib/yaml', d + '/lib/yaml')
        if os.path.isdir('/repo/yaml'):
            shutil.copytree('/repo/yaml', d + '/yaml')
        p = subprocess.run(['patch', '-p1', '-s', '-i', os.path.join(V, 'seeded', seed, 'patch.diff')], cwd=d, capture_output=True, text=True)
        if p.returncode:
            return seed, {'error': p.stdout + p.stderr}
        env = dict(os.environ, PYVC_REPO=d, PYVC_EVIDENCE_DIR=d + '/evidence')
        res = {}
        for c in checks:
            r = subprocess.run([os.path.join(V, 'check'), c, '--tier', 'quick', '--jobs', '4'], cwd=V, env=env, capture_output=True, text=True)
            vio = [l for l in r.stdout.splitlines() if l.startswith('VIOLATION')]
            res[c] = (r.returncode, len(vio), (vio[0][:230] if vio else ''))
        return seed, res
    finally:
        shutil.rmtree(d, ignore_errors=True)


with cf.ThreadPoolExecutor(4) as ex:
    for seed, res in ex.map(one, seeds):
        if 'error' in res:
            print(seed, 'PATCH ERROR', res['error']); continue
        hits = {c: v for c, v in res.items() if v[0] != 0}
        own = seed[:3]
        status = 'CAUGHT' if hits else 'missed'
        print('%-6s %s  by=%s  own-check(%s)=%s' % (seed, status, sorted(hits), own, res.get(own, ('n/a',))[0]))
        for c, v in hits.items():
            print('        %s rc=%d %s' % (c, v[0], v[2]))
