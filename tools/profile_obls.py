#!/usr/bin/env python3-vt
"""dev helper: verify every quick-tier contract (8 at a time) and list the obligations that took longer than --min seconds:
the ones whose verdict could flip under load.  usage: profile_obls.py [--min=3] [substr ...]"""
import sys, time, os, multiprocessing as mp
sys.path.insert(0, os.path.join(os.path.dirname(os.path.abspath(__file__)), '..'))
from pyvc.spec import load_all, REG
MIN = 3.0
for a in sys.argv:
    if a.startswith('--min='):
        MIN = float(a.split('=')[1])


def one(q):
    from pyvc.symex import World
    from pyvc.verify import verify_function
    t = time.time()
    r = verify_function(World(), q, 10000)
    slow = [(o['seconds'], o['name'], o['verdict'], o['backend'], o.get('note')) for o in r.obligations if o['seconds'] >= MIN or o['verdict'] != 'proved']
    return q, time.time() - t, len(r.obligations), slow, r.error or r.out_of_subset


if __name__ == '__main__':
    load_all()
    subs = [a for a in sys.argv[1:] if not a.startswith('-')]
    quals = [q for q, c in REG.contracts.items() if not c.trusted and c.tier == 'quick' and (not subs or any(s in q for s in subs))]
    allslow = []
    with mp.get_context('fork').Pool(8) as pool:
        for q, dt, n, slow, err in pool.imap_unordered(one, quals):
            print('%-62s %6d obls %7.1fs %s' % (q, n, dt, err or ''), flush=True)
            allslow += slow
    print('---- obligations >= %.1fs or not proved' % MIN)
    for s in sorted(allslow, reverse=True):
        print('%8.2f %s %s %s %s' % s)
