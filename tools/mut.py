#!/usr/bin/env python3
"""dev helper: apply a textual mutation to a scratch copy of /repo/lib and run tools/vf.py (or ./check) on it.
usage: mut.py <file under lib/yaml> <old> <new> -- <vf args...>      (old must occur exactly once unless --all)"""
import sys, os, shutil, subprocess, tempfile
a = sys.argv[1:]
k = a.index('--')
f, old, new = a[0], a[1], a[2]
rest = a[k + 1:]
d = tempfile.mkdtemp(prefix='pyvc-mut-')
try:
    os.makedirs(d + '/lib')
    shutil.copytree('/repo/lib/yaml', d + '/lib/yaml')
    p = d + '/lib/yaml/' + f
    s = open(p).read()
    old = old.encode().decode('unicode_escape'); new = new.encode().decode('unicode_escape')
    if s.count(old) != 1 and '--all' not in a[3:k]:
        print('pattern occurs %d times' % s.count(old)); sys.exit(2)
    open(p, 'w').write(s.replace(old, new))
    r = subprocess.run(['/venv/bin/python', '-c', 'import sys; sys.path.insert(0, %r); import yaml' % (d + '/lib')], capture_output=True, text=True)
    if r.returncode:
        print('mutant does not import:', r.stderr[-300:]); sys.exit(2)
    env = dict(os.environ, PYVC_REPO=d, PYVC_EVIDENCE_DIR=d + '/ev', PYVC_REPLAY_DIR=d + '/rp')
    V = os.path.dirname(os.path.dirname(os.path.abspath(__file__)))
    if rest and rest[0] == 'check':
        cmd = [V + '/check'] + rest[1:]
    else:
        cmd = ['python3-vt', V + '/tools/vf.py'] + rest
    sys.exit(subprocess.run(cmd, env=env, cwd=V).returncode)
finally:
    shutil.rmtree(d, ignore_errors=True)
