CLAIMS = {
    'C15': {
        'text': 'Contracts on the emitter functions that implement the formatting options are discharged for all argument values: the effective indent/width/line break are the documented function of the requested ones.',
        'note': 'Covers Emitter.__init__ so far; scalar writers, stream encoding and the LibYAML emitter are not under contract yet. Assumes indent/width are None or int, line_break None or str.',
        'technique': 'contract-based deductive verification: VCs generated from the real ASTs by pyvc, discharged by z3/cvc5',
        'design_ref': 'DESIGN.md 5/C15',
    },
}
_pending = 'contracts for this property are not built yet in this round (work in progress, see DESIGN.md section 5); no check is registered, nothing is claimed'
NOT_APPLICABLE = {p: _pending for p in ['C01','C02','C03','C04','C05','C07','C08','C09','C10','C11','C12','C13','C14','C16','C17','C18','C19','C20']}
NOT_APPLICABLE['C17'] = 'not claimed: the pickle-protocol reconstruction calls arbitrary methods of user objects (__setstate__, extend, item assignment, cls(*args)); stating it needs a ghost call log over opaque objects and assumed contracts for copyreg/__reduce_ex__ that were not built in the time available. The part of C17 that lives in construct_object (cache, recursion guard, deep flag) is discharged under C13 and the full-loader subset under C04; no check is registered for C17 itself, nothing is claimed'
NOT_APPLICABLE['C06'] = 'relational equivalence between the pure-Python pipeline and libyaml + Cython glue: no C or Cython verifier is installed, so one side of every obligation would be an assumption (DESIGN.md section 7)'
NOTES = 'All checks: ./check <ID> --tier quick|thorough; exit 0 held, 1 violation (VIOLATION line), 3 engine error (never a VIOLATION). Evidence in evidence/<ID>.json.'

_T = 'contract-based deductive verification: VCs generated from the real ASTs by pyvc, discharged by z3/cvc5; effect/frame contracts checked modularly on the AST; bounded stand-ins labelled'
CLAIMS.update({
    'C01': {'text': 'The safe loaders\' constructor tables are proved closed (YAML 1.1 core tags only, default = reject) by running the module bodies under the proved copy-on-write contract of add_constructor; every function reachable from those tables satisfies an effect contract (no import, no reflection, no computed callee).',
            'note': 'The null/str/bool/int/float converters are proved to return their type and raise only ConstructorError (four genuine defects repaired by fix: commits); timestamp/binary converters are not under contract; the Cython CParser is trusted (text scan only).', 'technique': _T, 'design_ref': 'DESIGN.md 5/C01'},
    'C04': {'text': 'The full loaders\' tables are proved to hold only value constructors plus python/name; the instantiating prefixes are absent; __import__ is guarded by unsafe and no reachable call passes unsafe; reachable functions satisfy the effect contract.',
            'note': 'getattr on an imported module is assumed to return an existing attribute (A-getattr).', 'technique': _T, 'design_ref': 'DESIGN.md 5/C04'},
    'C10': {'text': 'The copy-on-write contract of add_constructor/add_multi_constructor/add_representer/add_multi_representer is discharged over an arbitrary class lattice and arbitrary prior history (view of EVERY class, frame on every pre-existing dict); module-init tables and API helper targets are decided on the AST.',
            'note': 'add_implicit_resolver is proved one level deeper (no list that existed is written unless it belongs to the own table of cls; tables of different classes share no list) under the preconditions sep / vals_lists, whose induction over registration histories is the bounded stand-in; add_path_resolver: bounded stand-in only (all histories <= 3 ops on a 4-class lattice, labelled bounded). Lattices with registry diamonds are excluded by the precondition.', 'technique': _T, 'design_ref': 'DESIGN.md 5/C10'},
    'C11': {'text': 'Frame contracts: no function writes a class-level or module-level container, aliased fields are rebound before being written, API calls build one fresh object; per-document reset postconditions.',
            'note': 'Reset postconditions are being added function by function; id()-dependent behaviour and the C back-end are outside.', 'technique': _T, 'design_ref': 'DESIGN.md 5/C11'},
    'C19': {'text': 'Exception transparency as an effect contract over every try statement of the library: no handler can catch an exception of the caller\'s stream or callbacks, no stream I/O happens inside a guarded block, API functions only dispose in finally; plus the frame of C11.',
            'note': 'The C emitter/parser (except-0 handlers in Cython) are invisible to the effect checker.', 'technique': _T, 'design_ref': 'DESIGN.md 5/C19'},
})
CLAIMS.update({
    'C13': {'text': 'Contracts on every Composer function (alias = the anchored node itself, define-before-use, duplicate anchors rejected, the node registered under its anchor before its children are composed, anchors reset per document) and on BaseConstructor.construct_object / construct_document (node->object cache returns the same object on every visit, recursion guard, deep flag restored, caches reset per document, all generators exhausted) are discharged for every event sequence of the event grammar and every cache state.',
            'note': 'The event source (parser) is abstracted by a ghost event sequence assumed to be grammatical; registered constructors are assumed to follow the constructor protocol, which is PROVED of the five two-phase (yield) constructors of the safe loader (a new empty container is handed out before any child is constructed and before anything is touched; exactly one yield; protocol kept in the second phase); what happens while a generator is suspended is assumed to stay within the protocol; the C composer is outside.',
            'technique': _T, 'design_ref': 'DESIGN.md 5/C13'},
})
CLAIMS.update({
    'C09': {'text': 'Reader.forward/peek/prefix/get_mark are proved against a ghost input text: after forward() index/line/column equal spec functions that COUNT line breaks (BOM-insensitive column), marks lie inside the input; every parser state function is proved, for every next-token class, every well-typed continuation stack and an arbitrary scanner-shaped token sequence, to return an event with 0 <= start <= end <= N whose start lies between the first token looked at and the next unconsumed token (marks never move backwards), with safe stack pops and true asserts at STREAM-END.',
            'note': 'The scanner (token grammar, token marks, values between marks) is not under contract: tokens are an assumed well-formed ghost sequence. The event-grammar simulation (events form a word of the grammar) is covered only through the stack typing, not as a separate proof. parse_node is discharged in the thorough tier only.',
            'technique': _T, 'design_ref': 'DESIGN.md 5/C09'},
    'C03': {'text': 'Parser and composer functions are proved to raise only ParserError / ComposerError (or what the layer below raises) for arbitrary token / event sequences: no IndexError, KeyError, AttributeError, TypeError, UnboundLocalError or AssertionError is reachable; the reader primitives are index-safe for every buffer state.',
            'note': 'Of the scanner only the helpers are under contract (look-ahead predicates, line breaks, block-scalar header, %YAML number, %XX escapes, simple-key bookkeeping, each with a variant); the token builders fetch_* and most scan_* are not, so "scanning raises only ScannerError and terminates" is claimed for those helpers only; LibYAML half outside.',
            'technique': _T, 'design_ref': 'DESIGN.md 5/C03'},
    'C12': {'text': 'Emitter document boundary functions (expect_document_start/end, write_indent/indicator/line_break, write_plain open_ended flag, tag prefixes rebuilt per document) and the parser document loop (parse_document_start/end, process_directives, implicit documents) are under discharged contracts.',
            'note': 'The text-level argument (no content line starts with --- or ...) lives in the scalar writers/scanners, which are not under contract.',
            'technique': _T, 'design_ref': 'DESIGN.md 5/C12'},
    'C05': {'text': 'Every emitter state function is proved to install a well-typed next configuration or raise EmitterError for every event and every well-typed stack; emitter tag/anchor processing is proved: prepared tag/anchor are consumed on every path (nothing leaks into the next node), a scalar tag is elided only when the event marks it implicit for the style actually used, the style choice respects the scalar analysis; stream start/end states accept exactly their event and reject everything else with EmitterError.',
            'note': 'The whole expect_* state machine is under contract (stack typing EST: continuation stack, saved indents, flow_level = open flow collections; pop() never on an empty stack; only EmitterError or what the stream raises), as are prepare_* (all five), analyze_scalar, check_simple_key, process_scalar. Assumed: the four quoted/block scalar writers (frames only), the emit()/need_events dispatch loop, events being instances of the concrete event classes. The emit->parse text inverse is not claimed.',
            'technique': _T, 'design_ref': 'DESIGN.md 5/C05'},
    'C02': {'text': 'The block-scalar header (indentation indicator exactly when the text starts with a space or break; strip/clip/keep by the trailing breaks), the scalar style choice and the tag elision rule are proved for all texts and flag combinations.',
            'note': 'Also proved: analyze_scalar allows plain style only for text without line breaks and any style but double quotes only for printable text (for all texts), check_simple_key. Only these per-call pieces of the round trip are under contract; the end-to-end inverse (scalar writers vs scanners) is not claimed.',
            'technique': _T, 'design_ref': 'DESIGN.md 5/C02'},
    'C07': {'text': 'Reader.peek/prefix/forward/get_mark are proved against contracts that mention only the ghost text and position (never buffer, pointer or chunk sizes); determine_encoding is proved to choose the encoding as a function of the delivered bytes alone for every chunking; check_printable reports the absolute offset and is proved against the YAML printable set written from the specification; update_raw performs exactly one bounded read.',
            'note': 'Reader.update (decode loop) is used through an assumed abstract contract; the C input handler is outside.',
            'technique': _T, 'design_ref': 'DESIGN.md 5/C07'},
    'C08': {'text': 'All eight implicit-resolver patterns are translated from their real source and decided as regular-language obligations: complete first-character index, language equality with the YAML 1.1 languages (deviations explicit), pairwise disjointness, dump-side inclusion for int/float/bool/null/date/datetime; counterexamples are strings replayed on the real resolver.',
            'note': 'The value computed by the int/float/timestamp converters is outside the verifier: a bounded stand-in compares it with an independent reading of the YAML 1.1 type definitions on a finite grid of spellings (labelled bounded, never counted as proved); type and exception class of the converters are proved.',
            'technique': 'contract-based deductive verification: regular-language obligations generated from the real patterns (re._parser) and decided by z3; plus pyvc contracts on choose_scalar_style/process_tag', 'design_ref': 'DESIGN.md 5/C08'},
})
CLAIMS.update({
    'C16': {'text': 'Serializer/representer contracts are discharged: anchor names are a function of a per-document counter that restarts at 0 after every document (generate_anchor, serialize, represent), the representer and serializer tables are reset per document, a set is handed to represent_mapping as a dict (so sort_keys applies to sets), tag and text of none/bool/int/str nodes are functions of the value.',
            'note': 'The sorting step itself (sorted(items)) and the item loop of represent_mapping are assumed, not discharged; the dump fixed point and hash-seed independence are not claimed.',
            'technique': _T, 'design_ref': 'DESIGN.md 5/C16'},
})
CLAIMS.update({
    'C14': {'text': 'BaseConstructor.construct_mapping / construct_pairs / construct_sequence are under discharged contracts: only mapping (sequence) nodes are accepted, every unhashable key is rejected with ConstructorError (a genuine defect here was repaired by a fix: commit), one result entry per node entry, the object cache only grows and the in-progress set and deep flag are restored.',
            'note': 'Merge flattening (flatten_mapping / SafeConstructor.construct_mapping) and the omap/pairs/set shape checks are NOT proved: they are covered by a bounded stand-in (all mappings with <= 3 entries over plain/merge/merge-list/quoted-<</= keys, sources nested <= 2, shared sources), labelled bounded and not counted as proved.',
            'technique': _T, 'design_ref': 'DESIGN.md 5/C14'},
})
CLAIMS.update({
    'C18': {'text': 'The three mechanisms of incremental consumption are under discharged contracts: Reader.update reads nothing while enough characters are buffered and update_raw performs exactly one read of at most the requested size; pending simple-key candidates are removed once they are on an earlier line or more than 1024 characters back, and need_more_tokens asks for more only while the queue is empty or a candidate is pending; scan/parse/compose_all/load_all yield one item per iteration on demand inside try/finally dispose.',
            'note': 'The end-to-end bound (k-th document after at most two refill blocks beyond its end) is not derived: the fetch_* token builders between these pieces are not under contract. LibYAML input handler outside.',
            'technique': _T, 'design_ref': 'DESIGN.md 5/C18'},
    'C20': {'text': 'Linear-work mechanisms under discharged contracts: bounded simple-key look-ahead (stale_possible_simple_keys, next_possible_simple_key, need_more_tokens), the reader drops the consumed prefix on every refill and never reads while enough is buffered, and the scanning loops under contract carry variants (each iteration consumes input).',
            'note': 'This is a proof about mechanisms, not the measured call-count property: built-in costs, the emitter queue and the recursive stages are outside; a change that only adds interpreter-level calls without changing these contracts is not detected.',
            'technique': _T, 'design_ref': 'DESIGN.md 5/C20'},
})
for _p in CLAIMS:
    NOT_APPLICABLE.pop(_p, None)
