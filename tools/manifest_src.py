CLAIMS = {
    'C15': {
        'text': 'Contracts on the emitter functions that implement the formatting options are discharged for all argument values: the effective indent/width/line break are the documented function of the requested ones.',
        'note': 'Covers Emitter.__init__ so far; scalar writers, stream encoding and the LibYAML emitter are not under contract yet. Assumes indent/width are None or int, line_break None or str.',
        'technique': 'contract-based deductive verification: VCs generated from the real ASTs by pyvc, discharged by z3/cvc5',
        'design_ref': 'DESIGN.md 5/C15',
    },
}
_pending = 'contracts for this property are not built yet in this round (work in progress, see DESIGN.md section 5); no check is registered, nothing is claimed'
NOT_APPLICABLE = {p: _pending for p in ['C01','C02','C03','C04','C05','C07','C08','C09','C10','C11','C12','C13','C14','C16','C17','C18','C19','C20']}
NOT_APPLICABLE['C06'] = 'relational equivalence between the pure-Python pipeline and libyaml + Cython glue: no C or Cython verifier is installed, so one side of every obligation would be an assumption (DESIGN.md section 7)'
NOTES = 'All checks: ./check <ID> --tier quick|thorough; exit 0 held, 1 violation (VIOLATION line), 3 engine error (never a VIOLATION). Evidence in evidence/<ID>.json.'
