CLAIMS = {
    'C15': {
        'text': 'Contracts on the emitter functions that implement the formatting options are discharged for all argument values: the effective indent/width/line break are the documented function of the requested ones.',
        'note': 'Covers Emitter.__init__ so far; scalar writers, stream encoding and the LibYAML emitter are not under contract yet. Assumes indent/width are None or int, line_break None or str.',
        'technique': 'contract-based deductive verification: VCs generated from the real ASTs by pyvc, discharged by z3/cvc5',
        'design_ref': 'DESIGN.md 5/C15',
    },
}
_pending = 'contracts for this property are not built yet in this round (work in progress, see DESIGN.md section 5); no check is registered, nothing is claimed'
NOT_APPLICABLE = {p: _pending for p in ['C01','C02','C03','C04','C05','C07','C08','C09','C10','C11','C12','C13','C14','C16','C17','C18','C19','C20']}
NOT_APPLICABLE['C06'] = 'relational equivalence between the pure-Python pipeline and libyaml + Cython glue: no C or Cython verifier is installed, so one side of every obligation would be an assumption (DESIGN.md section 7)'
NOTES = 'All checks: ./check <ID> --tier quick|thorough; exit 0 held, 1 violation (VIOLATION line), 3 engine error (never a VIOLATION). Evidence in evidence/<ID>.json.'

_T = 'contract-based deductive verification: VCs generated from the real ASTs by pyvc, discharged by z3/cvc5; effect/frame contracts checked modularly on the AST; bounded stand-ins labelled'
CLAIMS.update({
    'C01': {'text': 'The safe loaders\' constructor tables are proved closed (YAML 1.1 core tags only, default = reject) by running the module bodies under the proved copy-on-write contract of add_constructor; every function reachable from those tables satisfies an effect contract (no import, no reflection, no computed callee).',
            'note': 'Result-type and raises-only contracts of the individual converters are not discharged yet; the Cython CParser is trusted (text scan only).', 'technique': _T, 'design_ref': 'DESIGN.md 5/C01'},
    'C04': {'text': 'The full loaders\' tables are proved to hold only value constructors plus python/name; the instantiating prefixes are absent; __import__ is guarded by unsafe and no reachable call passes unsafe; reachable functions satisfy the effect contract.',
            'note': 'getattr on an imported module is assumed to return an existing attribute (A-getattr).', 'technique': _T, 'design_ref': 'DESIGN.md 5/C04'},
    'C10': {'text': 'The copy-on-write contract of add_constructor/add_multi_constructor/add_representer/add_multi_representer is discharged over an arbitrary class lattice and arbitrary prior history (view of EVERY class, frame on every pre-existing dict); module-init tables and API helper targets are decided on the AST.',
            'note': 'add_implicit_resolver/add_path_resolver: bounded stand-in only (all histories <= 3 ops on a 4-class lattice, labelled bounded). Lattices with registry diamonds are excluded by the precondition.', 'technique': _T, 'design_ref': 'DESIGN.md 5/C10'},
    'C11': {'text': 'Frame contracts: no function writes a class-level or module-level container, aliased fields are rebound before being written, API calls build one fresh object; per-document reset postconditions.',
            'note': 'Reset postconditions are being added function by function; id()-dependent behaviour and the C back-end are outside.', 'technique': _T, 'design_ref': 'DESIGN.md 5/C11'},
    'C19': {'text': 'Exception transparency as an effect contract over every try statement of the library: no handler can catch an exception of the caller\'s stream or callbacks, no stream I/O happens inside a guarded block, API functions only dispose in finally; plus the frame of C11.',
            'note': 'The C emitter/parser (except-0 handlers in Cython) are invisible to the effect checker.', 'technique': _T, 'design_ref': 'DESIGN.md 5/C19'},
})
CLAIMS.update({
    'C13': {'text': 'Contracts on every Composer function (alias = the anchored node itself, define-before-use, duplicate anchors rejected, the node registered under its anchor before its children are composed, anchors reset per document) and on BaseConstructor.construct_object / construct_document (node->object cache returns the same object on every visit, recursion guard, deep flag restored, caches reset per document, all generators exhausted) are discharged for every event sequence of the event grammar and every cache state.',
            'note': 'The event source (parser) is abstracted by a ghost event sequence assumed to be grammatical; registered constructors are assumed to follow the constructor protocol; two-phase (yield) constructors and the C composer are not under contract here.',
            'technique': _T, 'design_ref': 'DESIGN.md 5/C13'},
})
for _p in CLAIMS:
    NOT_APPLICABLE.pop(_p, None)
