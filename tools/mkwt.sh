#!/bin/sh
# usage: mkwt.sh <dir>   -- scratch worktree of /repo HEAD with the prebuilt extension copied in
set -e
d="$1"
git -C /repo worktree add --detach "$d" HEAD >/dev/null 2>&1
cp /repo/lib/yaml/_yaml*.so "$d/lib/yaml/" 2>/dev/null || true
echo "$d"
