#!/usr/bin/env python3
"""Regenerate MANIFEST.json from tools/manifest_src.py (single source of truth for claims and N/A reasons)."""
import json, os, sys
sys.path.insert(0, os.path.dirname(__file__))
from manifest_src import CLAIMS, NOT_APPLICABLE, NOTES
checks = []
for pid, c in sorted(CLAIMS.items()):
    checks.append({
        'property_id': pid,
        'quick_cmd': './check %s --tier quick' % pid,
        'thorough_cmd': './check %s --tier thorough' % pid,
        'evidence_file': 'evidence/%s.json' % pid,
        'replay_cmd_template': './check %s --replay {path}' % pid,
        'engine': 'pyvc',
        'level_claimed': {'category': 'proof', 'text': c['text'], 'design_ref': c.get('design_ref', 'DESIGN.md section 5')},
        'level_note': c['note'],
        'technique': c['technique'],
    })
m = {
    'version': 1,
    'setup_cmd': 'python3-vt -m compileall -q pyvc contracts bounded >/dev/null 2>&1; python3-vt -c "import z3; print(z3.get_version_string())"',
    'hooks': {'guard': 'PYYAML_VERIF', 'enable': 'no hooks: contracts are sidecar files and /repo is read as it is (PYYAML_VERIF is read by nothing)',
              'baseline_off_cmd': 'cd /repo && /venv/bin/python -m pytest -ra -q -p no:cacheprovider --timeout=900 --continue-on-collection-errors',
              'source_commits': [], 'add_only': True},
    'engines': [{'name': 'pyvc', 'path': 'pyvc', 'serves_properties': sorted(CLAIMS),
                 'kind_free_text': 'own VC generator: symbolic execution of the real function ASTs of /repo/lib/yaml against sidecar contracts, obligations discharged by z3 (cvc5 for z3 unknowns); bounded stand-ins labelled as such'}],
    'checks': checks,
    'notes': NOTES,
    'not_applicable': [{'property_id': p, 'reason': r} for p, r in sorted(NOT_APPLICABLE.items())],
}
json.dump(m, open(os.path.join(os.path.dirname(__file__), '..', 'MANIFEST.json'), 'w'), indent=1)
print('claims', sorted(CLAIMS), 'n/a', sorted(NOT_APPLICABLE))
