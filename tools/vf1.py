#!/usr/bin/env python3-vt
"""dev helper: verify ONE function, streaming: symex statistics first, then every obligation as it is decided"""
import sys, time, os
sys.path.insert(0, os.path.join(os.path.dirname(os.path.abspath(__file__)), '..'))
from pyvc.spec import load_all, REG
from pyvc import verify
tmo = 10000
for a in sys.argv:
    if a.startswith('--tmo='):
        tmo = int(a.split('=')[1])
load_all()
import faulthandler
if os.environ.get("FH"):
    faulthandler.dump_traceback_later(int(os.environ["FH"]), repeat=True)
_c = [x for x in REG.contracts if sys.argv[1] in x and not REG.contracts[x].trusted]
q = ([x for x in _c if x.endswith(sys.argv[1])] or _c)[0]
slow = float(os.environ.get('SLOW', '1'))


def discharge(obls, timeout_ms=10000):
    print('symex done: %d obligations' % len(obls), flush=True)
    from collections import Counter
    print(Counter(o.name.split('@')[0] for o in obls).most_common(40), flush=True)
    if '--no-solve' in sys.argv:
        sys.exit(0)
    t0 = time.time()
    for i, ob in enumerate(obls):
        if ob.verdict is None:
            verify.solve_one(ob, timeout_ms)
        if ob.verdict != 'proved' or ob.seconds > slow:
            print('  [%d/%d %.0fs] %s %s %.2fs %s | %s' % (i, len(obls), time.time() - t0, ob.verdict, ob.backend, ob.seconds, ob.name, (ob.detail or '')[:150]), flush=True)


verify.discharge = discharge
from pyvc.symex import World
t = time.time()
r = verify.verify_function(World(), q, tmo)
bad = [o for o in r.obligations if o['verdict'] != 'proved']
print('%s obls=%d bad=%d paths=%d %.1fs %s' % (q, len(r.obligations), len(bad), r.paths, time.time() - t, r.out_of_subset or ''))
if r.error:
    print(r.error)
for o in bad:
    print('   ', o['verdict'], o['name'], o['detail'][:200], o.get('note'))
    if '-m' in sys.argv and o.get('model'):
        print('      model:', o['model'])
