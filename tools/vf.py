#!/usr/bin/env python3-vt
"""dev helper: verify the named functions and print non-proved obligations (or all with -v)"""
import sys, time, os
sys.path.insert(0, os.path.join(os.path.dirname(os.path.abspath(__file__)), '..'))
from pyvc.spec import load_all, REG
from pyvc.symex import World
from pyvc.verify import verify_function
load_all()
w = World()
verbose = '-v' in sys.argv
tmo = 10000
args = [a for a in sys.argv[1:] if not a.startswith('-')]
quals = []
for a in args:
    quals += [q for q in REG.contracts if a in q and not REG.contracts[q].trusted]
for q in quals:
    t = time.time()
    r = verify_function(w, q, tmo)
    bad = [o for o in r.obligations if o['verdict'] != 'proved']
    print('%-60s obls=%d bad=%d paths=%d %.2fs %s' % (q, len(r.obligations), len(bad), r.paths, time.time() - t, ('OOS: ' + r.out_of_subset) if r.out_of_subset else ''))
    if r.error:
        print(r.error)
    for o in (r.obligations if verbose else bad):
        print('   ', o['verdict'], o['backend'], o['seconds'], o['name'], '|', o['detail'][:140], '|', o.get('note'))
        if o['verdict'] == 'refuted' and o.get('model') and '-m' in sys.argv:
            print('       model:', o['model'])
