#!/usr/bin/env python3-vt
"""dev helper: verify the named functions in parallel and print non-proved obligations (or all with -v)"""
import sys, time, os, multiprocessing as mp
sys.path.insert(0, os.path.join(os.path.dirname(os.path.abspath(__file__)), '..'))
from pyvc.spec import load_all, REG
verbose = '-v' in sys.argv
tmo = 10000
for a in sys.argv:
    if a.startswith('--tmo='):
        tmo = int(a.split('=')[1])


def one(q):
    from pyvc.symex import World
    from pyvc.verify import verify_function
    t = time.time()
    r = verify_function(World(), q, tmo)
    bad = [o for o in r.obligations if o['verdict'] != 'proved']
    out = ['%-60s obls=%d bad=%d paths=%d %.2fs %s' % (q, len(r.obligations), len(bad), r.paths, time.time() - t, ('OOS: ' + r.out_of_subset) if r.out_of_subset else '')]
    if r.error:
        out.append(r.error)
    for o in (r.obligations if verbose else bad):
        out.append('    %s %s %s %s | %s | %s' % (o['verdict'], o['backend'], o['seconds'], o['name'], o['detail'][:140], o.get('note')))
        if o['verdict'] == 'refuted' and o.get('model') and '-m' in sys.argv:
            out.append('       model: %s' % o['model'])
    return '\n'.join(out)


if __name__ == '__main__':
    load_all()
    args = [a for a in sys.argv[1:] if not a.startswith('-')]
    quals = []
    for a in args:
        quals += [q for q in REG.contracts if a in q and not REG.contracts[q].trusted and q not in quals]
    with mp.get_context('fork').Pool(min(16, max(1, len(quals)))) as pool:
        for res in pool.imap_unordered(one, quals):
            print(res, flush=True)
