# hand-written VC for Reader.forward's loop body: inductive step of
#   line == spec_line(S,index) and column == spec_col(S,index)
import z3, time
S=z3.Const('S',z3.SeqSort(z3.IntSort()))
line_f=z3.Function('spec_line',z3.IntSort(),z3.IntSort())   # S fixed
col_f=z3.Function('spec_col',z3.IntSort(),z3.IntSort())
def at(i): return S[i]
NL,CR,NEL,LS,PS,BOM=10,13,0x85,0x2028,0x2029,0xFEFF
def isbreak(i):
    c=at(i)
    return z3.Or(c==NL,c==NEL,c==LS,c==PS, z3.And(c==CR, at(i+1)!=NL))
i=z3.Int('i')
ax=[z3.ForAll([i], z3.Implies(z3.And(i>=0,i<z3.Length(S)-1),
        z3.And(line_f(i+1)==line_f(i)+z3.If(isbreak(i),1,0),
               col_f(i+1)==z3.If(isbreak(i),0, z3.If(at(i)==BOM, col_f(i), col_f(i)+1))))),
    line_f(0)==0, col_f(0)==0]
index,line,column,pointer,off=z3.Ints('index line column pointer off')
buf=z3.Const('buffer',z3.SeqSort(z3.IntSort()))
# inv_reader: buffer == S[off:off+len(buffer)], index == off+pointer ; refill guarantee pointer+1 < len(buffer)
inv=[off>=0, pointer>=0, pointer+1<z3.Length(buf), off+z3.Length(buf)<=z3.Length(S),
     z3.ForAll([i], z3.Implies(z3.And(i>=0,i<z3.Length(buf)), buf[i]==S[off+i])),
     index==off+pointer, line==line_f(index), column==col_f(index),
     z3.Length(S)>=1, S[z3.Length(S)-1]==0, buf[pointer]!=0]
ch=buf[pointer]
p1=pointer+1; idx1=index+1
cond=z3.Or(ch==NL,ch==NEL,ch==LS,ch==PS, z3.And(ch==CR, buf[p1]!=NL))
line1=z3.If(cond,line+1,line); col1=z3.If(cond,0,z3.If(ch!=BOM,column+1,column))
s=z3.Solver(); s.set('timeout',60000); s.add(ax+inv)
s.add(z3.Not(z3.And(line1==line_f(idx1), col1==col_f(idx1))))
t=time.time(); print('inductive step:', s.check(), round(time.time()-t,2))
# mutant: forget '\x85'
cond2=z3.Or(ch==NL,ch==LS,ch==PS, z3.And(ch==CR, buf[p1]!=NL))
line2=z3.If(cond2,line+1,line)
s=z3.Solver(); s.set('timeout',60000); s.add(ax+inv); s.add(line2!=line_f(idx1))
t=time.time(); r=s.check(); print('mutant:', r, round(time.time()-t,2)); 
if r==z3.sat:
    m=s.model(); print(m[S], m[index], m[buf], m[pointer])
