import sys, itertools, collections
sys.path.insert(0,'/repo/lib')
import yaml
vals=['', 'a', 'a\n', '\n', [], {}, None, '---', '...', 'a\n\n', ' ', [[]], {'a':''}, '- a', '%x', 'a: b']
optsets=[]
for es in (None,True):
  for ee in (None,True):
    for ver in (None,(1,1)):
      for tags in (None,{'!e!':'tag:e,2000:'}):
        for ds in (None,'|','>','"'):
          for can in (None,True):
            optsets.append(dict(explicit_start=es,explicit_end=ee,version=ver,tags=tags,default_style=ds,canonical=can))
stats=collections.Counter(); ex={}
for n in (1,2,3):
    for docs in itertools.product(vals,repeat=n):
        if n==3 and not any(d in ('','a\n','\n',None) for d in docs): continue
        for o in (optsets if n<3 else optsets[::7]):
            docs=list(docs)
            try: t=yaml.safe_dump_all(docs,**o); got=list(yaml.safe_load_all(t))
            except Exception as e:
                k='EXC '+type(e).__name__; stats[k]+=1; ex.setdefault(k,(docs,o)); continue
            if got!=docs:
                k='neq'; stats[k]+=1
                if k not in ex or len(repr(docs))<len(repr(ex[k][0])): ex[k]=(docs,o,t,got)
            else: stats['ok']+=1
            # prefix-independence
            if n>=2:
                t1=yaml.safe_dump_all(docs[:1],**o)
                # text for first doc should be a prefix modulo the final '...'
print(stats)
for k,v in ex.items(): print(k,v)
