import sys, random, collections
sys.path.insert(0,'/repo/lib')
import yaml
from yaml.tokens import *
rnd=random.Random(3)
alpha=list("ab1 \n\t-?:,[]{}#&*!|>'\"%@`\\<=~.e_x0+") + ['\r','\x85',' ','﻿','é','---','...','%YAML 1.1\n','%TAG ! x\n','!!','\\x4','\\u','- ','? ',': ','  ','\n  ','|+\n','>2-\n','"\\\n']
stats=collections.Counter(); ex={}
def spec_lc(s,i):
    line=0; col=0; k=0
    while k<i:
        ch=s[k]
        if ch in '\n\x85  ' or (ch=='\r' and s[k+1:k+2]!='\n'): line+=1; col=0
        elif ch!='﻿': col+=1
        k+=1
    return line,col
for t in range(150000):
    s=''.join(rnd.choice(alpha) for _ in range(rnd.randint(0,14)))
    for what in ('scan','compose'):
        try:
            if what=='scan':
                toks=list(yaml.scan(s))
                last=-1; bal=0; flow=0
                for tk in toks:
                    a,b=tk.start_mark,tk.end_mark
                    assert 0<=a.index<=b.index<=len(s),(s,tk)
                    assert a.index>=last,('nonmono',s,tk); last=a.index
                    assert (a.line,a.column)==spec_lc(s,a.index),('lc',repr(s),tk,(a.line,a.column),spec_lc(s,a.index))
                    assert (b.line,b.column)==spec_lc(s,b.index),('lc-end',repr(s),tk)
                    if isinstance(tk,(BlockSequenceStartToken,BlockMappingStartToken)): bal+=1
                    if isinstance(tk,BlockEndToken): bal-=1; assert bal>=0
                    if isinstance(tk,(AnchorToken,AliasToken)): assert s[a.index+1:b.index]==tk.value
                    if isinstance(tk,ScalarToken) and tk.plain and a.line==b.line: assert s[a.index:b.index]==tk.value,(repr(s),tk)
                assert bal==0,('bal',s)
                assert isinstance(toks[0],StreamStartToken) and isinstance(toks[-1],StreamEndToken)
            else:
                list(yaml.compose_all(s))
            stats[what+' ok']+=1
        except yaml.YAMLError as e: stats[what+' '+type(e).__name__]+=1
        except AssertionError as e:
            k=what+' ASSERT '+str(e.args[0][0] if isinstance(e.args[0],tuple) else e.args[0])[:20]; stats[k]+=1; ex.setdefault(k,e.args)
        except Exception as e:
            k=what+' '+type(e).__name__+': '+str(e)[:50]; stats[k]+=1; ex.setdefault(k,repr(s))
for k,v in stats.most_common(): print(v,k)
for k,v in list(ex.items())[:8]: print(k,'=>',v)
