import sys, random, collections
sys.path.insert(0,'/repo/lib')
import yaml
print(repr(yaml.safe_dump('\x85',allow_unicode=True)), repr(yaml.safe_load(yaml.safe_dump('\x85',allow_unicode=True))))
rnd=random.Random(11)
words=['a','bb','ccc',' ','  ','\n','\n\n',' x','\n ','- ',': ','#','é']
stats=collections.Counter(); ex={}
for t in range(120000):
    s=''.join(rnd.choice(words) for _ in range(rnd.randint(1,14)))
    o=dict(default_style=rnd.choice([None,'>','|','"',"'"]),width=rnd.choice([None,3,5,8,20]),indent=rnd.choice([None,1,4,9]),default_flow_style=rnd.choice([None,False,True]))
    depth=rnd.randint(0,4); x=s
    for _ in range(depth): x=rnd.choice([lambda v:[v],lambda v:{'k':v},lambda v:{v:1} if isinstance(v,str) else [v]])(x)
    try: txt=yaml.safe_dump(x,**o); y=yaml.safe_load(txt)
    except Exception as e:
        k=type(e).__name__; stats[k]+=1; ex.setdefault(k,(x,o)); continue
    if y!=x:
        k='neq'; stats[k]+=1
        if k not in ex or len(repr(x))<len(repr(ex[k][0])): ex[k]=(x,o,txt)
print(stats)
for k,v in ex.items(): print(k,v)
