import sys, re, time
sys.path.insert(0,'/repo/lib')
import z3
try:
    import re._parser as sre_parse, re._constants as C
except ImportError:
    import sre_parse, sre_constants as C
def cls(items):
    rs=[]; neg=False
    for op,av in items:
        if op==C.NEGATE: neg=True
        elif op==C.LITERAL: rs.append(z3.Re(chr(av)))
        elif op==C.RANGE: rs.append(z3.Range(chr(av[0]),chr(av[1])))
        else: raise NotImplementedError(op)
    r = rs[0] if len(rs)==1 else z3.Union(*rs)
    if neg: r = z3.Intersect(z3.AllChar(z3.ReSort(z3.StringSort())), z3.Complement(r))
    return r
def seq(p):
    parts=[tr(op,av) for op,av in p if op!=C.AT]
    if not parts: return z3.Re("")
    return parts[0] if len(parts)==1 else z3.Concat(*parts)
def tr(op,av):
    if op==C.LITERAL: return z3.Re(chr(av))
    if op==C.IN: return cls(av)
    if op==C.BRANCH: 
        bs=[seq(b) for b in av[1]]
        return z3.Union(*bs)
    if op==C.SUBPATTERN: return seq(av[3])
    if op in (C.MAX_REPEAT,C.MIN_REPEAT):
        lo,hi,sub=av; r=seq(sub)
        if hi==C.MAXREPEAT:
            return z3.Star(r) if lo==0 else (z3.Plus(r) if lo==1 else z3.Concat(*([r]*lo+[z3.Star(r)])))
        return z3.Loop(r,lo,hi)
    raise NotImplementedError(op)
def toz3(pat):
    return seq(sre_parse.parse(pat.pattern, pat.flags))
if __name__=='__main__':
    from yaml.resolver import Resolver
    table={}
    for ch,lst in Resolver.yaml_implicit_resolvers.items():
        for tag,rx in lst: table.setdefault((tag,rx.pattern),(rx,[]))[1].append(ch)
    s=z3.String('s')
    for (tag,_),(rx,firsts) in table.items():
        R=toz3(rx)
        t0=time.time()
        sol=z3.Solver(); sol.set('timeout',20000)
        sol.add(z3.InRe(s,R))
        conds=[]
        for f in firsts:
            if f=='' : conds.append(s==z3.StringVal(''))
            elif f is None: conds.append(z3.BoolVal(True))
            else: conds.append(z3.PrefixOf(z3.StringVal(f),s))
        sol.add(z3.Not(z3.Or(*conds)))
        print(tag, 'index-complete:', sol.check(), round(time.time()-t0,2))
