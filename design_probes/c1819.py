import sys, io; sys.path.insert(0,'/repo/lib')
import yaml
class Str:
    def __init__(self,data,chunk): self.d=data; self.p=0; self.chunk=chunk; self.req=0
    def read(self,n):
        k=min(n,self.chunk); self.req+=n; r=self.d[self.p:self.p+k]; self.p+=k; return r
docs=['a: %d\nb: [1,2]\n'%i + '# c\n'*50 for i in range(200)]
text='---\n'+'---\n'.join(docs)
ends=[]; pos=0
for d in docs: pos+=4+len(d); ends.append(pos)
for L in (yaml.SafeLoader, yaml.CSafeLoader):
    for chunk in (1,100,4096,10**9):
        s=Str(text if L is yaml.SafeLoader else text.encode(),chunk)
        worst=0
        for i,doc in enumerate(yaml.load_all(s,L)):
            worst=max(worst, s.p-ends[i])
            if i>150: break
        print(L.__name__,chunk,'max consumed beyond doc end',worst)
# error after good docs
s='a: 1\n---\nb: 2\n---\n[ unclosed\n'
for L in (yaml.SafeLoader, yaml.CSafeLoader):
    got=[]
    try:
        for d in yaml.load_all(s,L): got.append(d)
    except yaml.YAMLError as e: got.append(type(e).__name__)
    print(L.__name__,got)
# stream fault
class Boom(Exception): pass
class F:
    def __init__(self,data,at): self.d=data; self.n=0; self.at=at; self.p=0
    def read(self,n):
        self.n+=1
        if self.n==self.at: raise Boom(self.n)
        r=self.d[self.p:self.p+7]; self.p+=7; return r
for L in (yaml.SafeLoader, yaml.CSafeLoader):
    res=set()
    for at in range(1,12):
        try: yaml.load(F(b'a: [1, 2, 3]\nb: {c: d}\n' ,at),L); res.add('ok')
        except Boom as e: res.add('Boom')
        except Exception as e: res.add(type(e).__name__+str(e)[:40])
    print(L.__name__,res)
