# throwaway prototype: universal value datatype + forward symbolic execution of real function ASTs
import ast, sys, z3, time, textwrap, inspect
sys.path.insert(0,'/repo/lib')
V=z3.Datatype('V')
V.declare('none'); V.declare('b',('bv',z3.BoolSort())); V.declare('i',('iv',z3.IntSort())); V.declare('s',('sv',z3.StringSort())); V.declare('r',('rv',z3.IntSort()))
V=V.create()
def truthy(v): return z3.If(V.is_none(v),False, z3.If(V.is_b(v),V.bv(v), z3.If(V.is_i(v),V.iv(v)!=0, z3.If(V.is_s(v),z3.Length(V.sv(v))>0, True))))
I=lambda x:V.i(x); B=lambda x:V.b(x); S=lambda x:V.s(z3.StringVal(x))
class Path:
    def __init__(s,env,fields,pc,obl): s.env=env; s.fields=fields; s.pc=pc; s.obl=obl
    def fork(s): return Path(dict(s.env),dict(s.fields),list(s.pc),s.obl)
class Ex:
    def __init__(self, src_path, qual):
        tree=ast.parse(open(src_path).read()); cls,fn=qual.split('.')
        c=[n for n in tree.body if isinstance(n,ast.ClassDef) and n.name==cls][0]
        self.fn=[n for n in c.body if isinstance(n,ast.FunctionDef) and n.name==fn][0]
        self.obls=[]; self.exits=[]
    def expr(self,e,p):
        if isinstance(e,ast.Constant):
            v=e.value
            if v is None: return V.none
            if isinstance(v,bool): return B(z3.BoolVal(v))
            if isinstance(v,int): return I(z3.IntVal(v))
            if isinstance(v,str): return S(v)
        if isinstance(e,ast.Name): return p.env[e.id]
        if isinstance(e,(ast.List,ast.Dict)) and not getattr(e,'elts',getattr(e,'keys',None)):
            self.nfresh=getattr(self,'nfresh',0)+1; return V.r(z3.IntVal(self.nfresh))
        if isinstance(e,ast.Attribute) and isinstance(e.value,ast.Name) and e.value.id=='self':
            return p.fields.setdefault(e.attr, z3.Const('self_'+e.attr+'_0',V))
        if isinstance(e,ast.Attribute):   # x.y.z : chained field of object value -> uninterpreted
            base=self.expr(e.value,p); f=z3.Function('fld_'+e.attr,V,V); return f(base)
        if isinstance(e,ast.Subscript):
            base=self.expr(e.value,p); idx=self.expr(e.slice,p); f=z3.Function('getitem',V,V,V); return f(base,idx)
        if isinstance(e,ast.BoolOp):
            vals=[self.expr(x,p) for x in e.values]; r=vals[-1]
            for v in reversed(vals[:-1]):
                r = z3.If(truthy(v), r, v) if isinstance(e.op,ast.And) else z3.If(truthy(v), v, r)
            return r
        if isinstance(e,ast.UnaryOp) and isinstance(e.op,ast.Not): return B(z3.Not(truthy(self.expr(e.operand,p))))
        if isinstance(e,ast.BinOp):
            a,b=self.expr(e.left,p),self.expr(e.right,p)
            self.obls.append(('safe/int-operands@%d'%e.lineno, p.pc, z3.And(V.is_i(a),V.is_i(b))))
            op={ast.Add:lambda x,y:x+y, ast.Sub:lambda x,y:x-y, ast.Mult:lambda x,y:x*y}[type(e.op)]
            return I(op(V.iv(a),V.iv(b)))
        if isinstance(e,ast.Compare):
            left=self.expr(e.left,p); conj=[]
            for op,r in zip(e.ops,e.comparators):
                if isinstance(op,(ast.In,ast.NotIn)) and isinstance(r,(ast.List,ast.Tuple)):
                    c=z3.Or(*[left==self.expr(x,p) for x in r.elts])
                    conj.append(c if isinstance(op,ast.In) else z3.Not(c)); continue
                right=self.expr(r,p)
                if isinstance(op,(ast.In,ast.NotIn)):     # str in str (substring)
                    c=z3.Contains(V.sv(right),V.sv(left)); conj.append(c if isinstance(op,ast.In) else z3.Not(c)); left=right; continue
                if isinstance(op,(ast.Eq,ast.Is)): c=left==right
                elif isinstance(op,(ast.NotEq,ast.IsNot)): c=left!=right
                else:
                    self.obls.append(('safe/int-compare@%d'%e.lineno, p.pc+conj, z3.And(V.is_i(left),V.is_i(right))))
                    a,b=V.iv(left),V.iv(right)
                    c={ast.Lt:a<b,ast.LtE:a<=b,ast.Gt:a>b,ast.GtE:a>=b}[type(op)]
                conj.append(c); left=right
            return B(z3.And(*conj))
        if isinstance(e,ast.Call) and isinstance(e.func,ast.Attribute) and isinstance(e.func.value,ast.Name) and e.func.value.id=='self':
            # modular: uninterpreted result (a contract would go here)
            f=z3.Function('call_'+e.func.attr,V,V); return f(V.none)
        raise NotImplementedError(ast.dump(e)[:80])
    def block(self,stmts,p):
        paths=[p]
        for st in stmts:
            nxt=[]
            for q in paths: nxt+=self.stmt(st,q)
            paths=nxt
        return paths
    def stmt(self,st,p):
        if isinstance(st,ast.Expr) and isinstance(st.value,ast.Constant): return [p]
        if isinstance(st,ast.Assign):
            v=self.expr(st.value,p)
            for t in st.targets:
                if isinstance(t,ast.Name): p.env[t.id]=v
                elif isinstance(t,ast.Attribute) and t.value.id=='self': p.fields[t.attr]=v
                else: raise NotImplementedError
            return [p]
        if isinstance(st,ast.If):
            c=truthy(self.expr(st.test,p)); a=p.fork(); a.pc.append(c); b=p.fork(); b.pc.append(z3.Not(c))
            return self.block(st.body,a)+self.block(st.orelse,b)
        if isinstance(st,ast.Return):
            self.exits.append((p, self.expr(st.value,p) if st.value else V.none)); return []
        raise NotImplementedError(ast.dump(st)[:80])
    def run(self, pre, params):
        p=Path(dict(params),{},list(pre),None)
        for q in self.block(self.fn.body,p): self.exits.append((q,V.none))
def prove(name,pc,goal):
    s=z3.Solver(); s.set('timeout',10000); s.add(*pc); s.add(z3.Not(goal)); t=time.time(); r=s.check()
    print('  %-55s %s %.3fs'%(name,'proved' if r==z3.unsat else r, time.time()-t), s.model() if r==z3.sat and len(str(s.model()))<200 else '')
# 1. Emitter.__init__
ex=Ex('/repo/lib/yaml/emitter.py','Emitter.__init__')
names=['stream','canonical','indent','width','allow_unicode','line_break']
params={n:z3.Const(n,V) for n in names}
ind,wid,lb=params['indent'],params['width'],params['line_break']
pre=[z3.Or(V.is_none(ind),V.is_i(ind)), z3.Or(V.is_none(wid),V.is_i(wid)), z3.Or(V.is_none(lb),V.is_s(lb))]
t0=time.time(); ex.run(pre,params); print('Emitter.__init__: paths',len(ex.exits),'obligations',len(ex.obls),'symex %.2fs'%(time.time()-t0))
for n,pc,g in ex.obls: prove(n,pc,g)
for k,(p,ret) in enumerate(ex.exits):
    bi=p.fields['best_indent']; bw=p.fields['best_width']; bl=p.fields['best_line_break']
    want_bi=z3.If(z3.And(V.is_i(ind),V.iv(ind)>1,V.iv(ind)<10), ind, I(z3.IntVal(2)))
    prove('post/best_indent path%d'%k,p.pc,bi==want_bi)
    prove('post/best_width path%d'%k,p.pc,z3.And(V.is_i(bw), V.iv(bw)>2*V.iv(bi), z3.Or(bw==wid, bw==I(z3.IntVal(80)))))
    prove('post/line_break path%d'%k,p.pc,z3.Or(bl==S('\r'),bl==S('\n'),bl==S('\r\n')))
