import sys, random, io, collections, codecs
sys.path.insert(0,'/repo/lib')
import yaml
class S:
    def __init__(self,data,sizes): self.d=data; self.p=0; self.sizes=sizes; self.i=0
    def read(self,n=None):
        k=self.sizes[self.i%len(self.sizes)]; self.i+=1
        r=self.d[self.p:self.p+k]; self.p+=k; return r
def outcome(src):
    try:
        toks=[(type(t).__name__, getattr(t,'value',None), t.start_mark.line,t.start_mark.column,t.end_mark.line,t.end_mark.column) for t in yaml.scan(src)]
        return ('ok',toks)
    except yaml.reader.ReaderError as e: return ('ReaderError', e.position, e.character, e.encoding, e.reason)
    except yaml.YAMLError as e: return (type(e).__name__, str(e.problem), e.problem_mark.line, e.problem_mark.column, e.problem_mark.index)
    except Exception as e: return ('OTHER', type(e).__name__, str(e))
rnd=random.Random(5)
docs=['a: 1\r\nb: [x, "é😀"]\n','- a\r- b\x85- c','k: "a\\\n  b"\n','x: \x07y','é'*5000+': 1\n','a: 😀\r\n'*1500, '\ud800: 1' ]
bad=[b'a: \xff\n', b'a: \xe2\x82', 'a: €'.encode('utf-8')[:-1]+b'\nb', codecs.BOM_UTF16_LE+'a: 1'.encode('utf-16-le')+b'\x00', codecs.BOM_UTF16_LE+'a😀'.encode('utf-16-le')[:-2]]
diff=collections.Counter()
for d in docs:
    try: b8=d.encode('utf-8')
    except UnicodeEncodeError: continue
    ref=outcome(d)
    forms={'utf8':b8,'utf8bom':codecs.BOM_UTF8+b8,'u16le':codecs.BOM_UTF16_LE+d.encode('utf-16-le'),'u16be':codecs.BOM_UTF16_BE+d.encode('utf-16-be')}
    for name,b in forms.items():
        o=outcome(b)
        if o!=ref: diff[(d[:10],name,'bytes')]+=1; print('DIFF',repr(d[:12]),name, str(ref)[:100], '|', str(o)[:100])
        for t in range(40):
            sizes=[rnd.choice([1,2,3,5,4095,4096,4097,10**6]) for _ in range(rnd.randint(1,4))]
            o2=outcome(S(b,sizes))
            if o2!=o: diff[(d[:10],name,'chunk')]+=1; print('CHUNKDIFF',repr(d[:12]),name,sizes,str(o)[:90],'|',str(o2)[:90]); break
    for t in range(40):
        sizes=[rnd.choice([1,2,3,5,4095,4096,4097]) for _ in range(rnd.randint(1,4))]
        o2=outcome(S(d,sizes))
        if o2!=ref: print('STRCHUNKDIFF',repr(d[:12]),sizes,str(ref)[:90],'|',str(o2)[:90]); break
for b in bad:
    ref=outcome(b)
    print('bad',b[:12],ref)
    for t in range(60):
        sizes=[rnd.choice([1,2,3,5]) for _ in range(rnd.randint(1,4))]
        o2=outcome(S(b,sizes))
        if o2!=ref: print('  BADCHUNKDIFF',sizes,o2); break
print(outcome(io.StringIO('a: \x07')), outcome('a: \x07'), outcome(b'a: \x07'), outcome(io.BytesIO(b'a: \x07')))
