"""Attempted deductive contract for SafeConstructor.flatten_mapping (not discharged within budget: the hereditary node-graph
invariant with nested quantifiers timed out in both z3 and cvc5).  Kept for the record; C14 uses bounded/c14_merge.py for this function."""
# ---------------------------------------------------------------------------------------------------------------- C14
SC = 'yaml.constructor.SafeConstructor.'
MERGE = 'tag:yaml.org,2002:merge'
VALUE = 'tag:yaml.org,2002:value'
STRT = 'tag:yaml.org,2002:str'


def _nid(ex, name):
    return ex.w.class_id('yaml.nodes.' + name)


def _is_node(ex, v):
    return z3.And(is_r(v), z3.Or(*[typ(rv(v)) == _nid(ex, n) for n in ('ScalarNode', 'SequenceNode', 'MappingNode')]))


def wf_nodes(cx):
    """well-formed node graph (what the composer builds): a mapping node's value is a list of (key node, value node) pairs,
    a sequence node's value is a list of nodes, tags are strings, and no mapping shares its item list with a sequence"""
    ex, st = cx.ex, cx.st
    val, tag, seq = ex.harr(st, 'f:value'), ex.harr(st, 'f:tag'), ex.harr(st, '$seq')
    n, m, i = z3.Ints('wn_n wn_m wn_i')
    isM = lambda x: typ(x) == _nid(ex, 'MappingNode')
    isS = lambda x: typ(x) == _nid(ex, 'SequenceNode')
    lst = lambda x: z3.And(is_r(z3.Select(val, x)), typ(rv(z3.Select(val, x))) == 1, rv(z3.Select(val, x)) >= 0, rv(z3.Select(val, x)) < st.alloc)
    items = lambda x: z3.Select(seq, rv(z3.Select(val, x)))
    pair = lambda v: z3.And(is_r(v), typ(rv(v)) == 3, z3.Length(tup(rv(v))) == 2, _is_node(ex, tup(rv(v))[0]), _is_node(ex, tup(rv(v))[1]))
    return z3.And(
        z3.ForAll([n], z3.Implies(isM(n), lst(n))),
        z3.ForAll([n, i], z3.Implies(z3.And(isM(n), 0 <= i, i < z3.Length(items(n))), pair(items(n)[i]))),
        z3.ForAll([n], z3.Implies(isS(n), lst(n))),
        z3.ForAll([n, i], z3.Implies(z3.And(isS(n), 0 <= i, i < z3.Length(items(n))), _is_node(ex, items(n)[i]))),
        z3.ForAll([n], z3.Implies(z3.Or(isM(n), isS(n), typ(n) == _nid(ex, 'ScalarNode')), is_s(z3.Select(tag, n)))),
        z3.ForAll([n, m], z3.Implies(z3.And(isM(n), isS(m)), z3.Select(val, n) != z3.Select(val, m))),
    )


wf_nodes.__name__ = 'wf_nodes: mapping items are (node, node) pairs, sequence items are nodes, tags are strings, mappings and sequences do not share item lists'


def seq_nodes_untouched(cx):
    """C14 "every reuse of a shared merge source": flattening never writes the item list of a sequence node (a merge list
    that several mappings share reads the same the second time)"""
    ex, st, old = cx.ex, cx.st, cx.old
    n = z3.Int('sq_n')
    val0, seq0, seq1, val1 = ex.harr(old, 'f:value'), ex.harr(old, '$seq'), ex.harr(st, '$seq'), ex.harr(st, 'f:value')
    return z3.ForAll([n], z3.Implies(z3.And(typ(n) == _nid(ex, 'SequenceNode'), n < old.alloc),
                                     z3.And(z3.Select(val1, n) == z3.Select(val0, n),
                                            z3.Select(seq1, rv(z3.Select(val0, n))) == z3.Select(seq0, rv(z3.Select(val0, n))))))


seq_nodes_untouched.__name__ = 'the item list of every sequence node is unchanged'


def tags_only_value_to_str(cx):
    ex, st, old = cx.ex, cx.st, cx.old
    n = z3.Int('tg_n')
    t0, t1 = ex.harr(old, 'f:tag'), ex.harr(st, 'f:tag')
    return z3.ForAll([n], z3.Implies(n < old.alloc, z3.Or(z3.Select(t1, n) == z3.Select(t0, n),
                                                          z3.And(z3.Select(t0, n) == mk_s(VALUE), z3.Select(t1, n) == mk_s(STRT)))))


tags_only_value_to_str.__name__ = "the only tag ever rewritten is '=' (value) -> str"

_FM_INV = [wf_nodes, seq_nodes_untouched, tags_only_value_to_str, "exact(node, 'yaml.nodes.MappingNode')"]
contract(SC + 'flatten_mapping', props=['C14'], max_paths=6, params={'node': 'obj:yaml.nodes.MappingNode'},
    requires=[wf_nodes, "exact(node, 'yaml.nodes.MappingNode')"],
    ensures=[wf_nodes, seq_nodes_untouched, tags_only_value_to_str],
    labels={0: 'wf_nodes-preserved', 1: 'shared-merge-lists-untouched', 2: 'tags-only-value-to-str'},
    invariants={0: _FM_INV + ["fresh(merge) and typeis(merge, 'list')", "index >= 0",
                              "forall(j, 0, len(merge), typeis(merge[j], 'tuple') and len(merge[j]) == 2)"],
                1: _FM_INV + ["fresh(merge) and typeis(merge, 'list')", "fresh(submerge) and typeis(submerge, 'list')", "index >= 0",
                              "forall(j, 0, len(merge), typeis(merge[j], 'tuple') and len(merge[j]) == 2)",
                              "forall(j, 0, len(submerge), typeis(submerge[j], 'list'))", "exact(value_node, 'yaml.nodes.SequenceNode')"],
                2: _FM_INV + ["fresh(merge) and typeis(merge, 'list')", "index >= 0",
                              "forall(j, 0, len(merge), typeis(merge[j], 'tuple') and len(merge[j]) == 2)"]},
    modifies=['*.value', '*.tag', '$seq'], raises=[CERR])


