import z3, time
Cls=z3.DeclareSort('Cls'); Ref=z3.DeclareSort('Ref'); Key=z3.DeclareSort('Key'); Val=z3.DeclareSort('Val')
D=z3.ArraySort(Key,Val)
pos=z3.Function('pos',Cls,Cls,z3.IntSort())      # position of d in the registry-bearing chain of c, -1 if absent
has=z3.Function('has',Cls,z3.BoolSort()); ref=z3.Function('ref',Cls,Ref)
heap=z3.Array('heap',Ref,D)
owner=z3.Function('owner',Cls,Cls)
c,d,e=z3.Consts('c d e',Cls)
root=z3.Const('root',Cls)
def owner_axioms(owner,has):
    return [z3.ForAll([c], z3.And(has(owner(c)), pos(c,owner(c))>=0)),
            z3.ForAll([c,d], z3.Implies(z3.And(has(d),pos(c,d)>=0), pos(c,owner(c))<=pos(c,d)))]
lattice=[z3.ForAll([c], pos(c,c)==0),
         z3.ForAll([c,d], pos(c,d)>=-1),
         z3.ForAll([c,d,e], z3.Implies(z3.And(pos(c,d)>=0,pos(c,e)>=0,pos(c,d)==pos(c,e)), d==e)),
         # suffix (linearity): if d in chain(c) then chain(d) is the suffix of chain(c) from d
         z3.ForAll([c,d,e], z3.Implies(pos(c,d)>=0, z3.And(
              z3.Implies(pos(d,e)>=0, z3.And(pos(c,e)>=0, pos(c,e)==pos(c,d)+pos(d,e))),
              z3.Implies(z3.And(pos(c,e)>=pos(c,d)), pos(d,e)==pos(c,e)-pos(c,d))))),
         z3.ForAll([c], pos(c,root)>=0), has(root)]
inv=[z3.ForAll([c,d], z3.Implies(z3.And(has(c),has(d),ref(c)==ref(d)), c==d))]
cls=z3.Const('cls',Cls); tag=z3.Const('tag',Key); f=z3.Const('f',Val); fresh=z3.Const('fresh',Ref)
freshness=[z3.ForAll([c], z3.Implies(has(c), ref(c)!=fresh))]
def view(owner,ref,heap,x): return heap[ref(owner(x))]
def run(copy=True):
    has2=z3.Function('has2',Cls,z3.BoolSort()); ref2=z3.Function('ref2',Cls,Ref); owner2=z3.Function('owner2',Cls,Cls)
    # branch: cls has no own table
    pre=[z3.Not(has(cls))]
    newref = fresh if copy else ref(owner(cls))
    h1 = z3.Store(heap, fresh, heap[ref(owner(cls))]) if copy else heap
    defs=[z3.ForAll([c], has2(c)==z3.Or(has(c), c==cls)), z3.ForAll([c], ref2(c)==z3.If(c==cls,newref,ref(c)))]
    h2=z3.Store(h1, ref2(cls), z3.Store(h1[ref2(cls)], tag, f))
    x=z3.Const('x',Cls)
    post=z3.And(view(owner2,ref2,h2,x) == z3.If(owner2(x)==cls, z3.Store(view(owner,ref,heap,x),tag,f), view(owner,ref,heap,x)),
                (owner2(x)==cls) == z3.And(pos(x,cls)>=0, pos(x,owner(x))>pos(x,cls)))
    s=z3.Solver(); s.set('timeout',60000)
    s.add(lattice+inv+freshness+owner_axioms(owner,has)+owner_axioms(owner2,has2)+defs+pre)
    s.add(z3.Not(post)); t=time.time(); r=s.check(); print('no-own branch copy=%s:'%copy, r, round(time.time()-t,2))
    # branch: cls already has own
    s=z3.Solver(); s.set('timeout',60000)
    h2b=z3.Store(heap, ref(cls), z3.Store(heap[ref(cls)], tag, f))
    postb=view(owner,ref,h2b,x) == z3.If(owner(x)==cls, z3.Store(view(owner,ref,heap,x),tag,f), view(owner,ref,heap,x))
    s.add(lattice+inv+owner_axioms(owner,has)+[has(cls)]); s.add(z3.Not(postb)); t=time.time(); print('own branch:', s.check(), round(time.time()-t,2))
run(True); run(False)
