import sys,time
sys.path.insert(0,'/repo/lib')
import z3, re
import re._parser as sre_parse, re._constants as C
from yaml.resolver import Resolver
SV=z3.StringVal
def cls(items, erase):
    chars=set(); 
    rs=[]; has=False
    for op,av in items:
        if op==C.LITERAL:
            if chr(av)==erase: has=True
            else: rs.append(z3.Re(chr(av)))
        elif op==C.RANGE:
            lo,hi=av
            if erase and lo<=ord(erase)<=hi:
                has=True
                if lo<ord(erase): rs.append(z3.Range(chr(lo),chr(ord(erase)-1)))
                if ord(erase)<hi: rs.append(z3.Range(chr(ord(erase)+1),chr(hi)))
            else: rs.append(z3.Range(chr(lo),chr(hi)))
        else: raise NotImplementedError
    if has: rs.append(z3.Re(""))
    return rs[0] if len(rs)==1 else z3.Union(*rs)
def seq(p,e):
    parts=[tr(op,av,e) for op,av in p if op!=C.AT]
    if not parts: return z3.Re("")
    return parts[0] if len(parts)==1 else z3.Concat(*parts)
def tr(op,av,e):
    if op==C.LITERAL: return z3.Re("") if chr(av)==e else z3.Re(chr(av))
    if op==C.IN: return cls(av,e)
    if op==C.BRANCH: return z3.Union(*[seq(b,e) for b in av[1]])
    if op==C.SUBPATTERN: return seq(av[3],e)
    if op in (C.MAX_REPEAT,C.MIN_REPEAT):
        lo,hi,sub=av; r=seq(sub,e)
        if hi==C.MAXREPEAT:
            return z3.Star(r) if lo==0 else (z3.Plus(r) if lo==1 else z3.Concat(*([r]*lo+[z3.Star(r)])))
        return z3.Loop(r,lo,hi)
    raise NotImplementedError(op)
rx=[r for t,r in Resolver.yaml_implicit_resolvers['0'] if t.endswith(':int')][0]
Rp=seq(sre_parse.parse(rx.pattern,rx.flags),'_')
v=z3.String('v')
def chk(name,*cs,to=30000):
    sol=z3.Solver(); sol.set('timeout',to); sol.add(*cs); t0=time.time(); r=sol.check()
    print(name,r,round(time.time()-t0,2), sol.model()[v] if r==z3.sat else '')
signed=z3.Or(z3.PrefixOf(SV('-'),v),z3.PrefixOf(SV('+'),v))
v2=z3.If(signed, z3.SubString(v,1,z3.Length(v)-1), v)
chk('nonempty', z3.InRe(v,Rp), z3.Length(v)==0)
chk('0b', z3.InRe(v,Rp), v2!=SV('0'), z3.PrefixOf(SV('0b'),v2), z3.Not(z3.InRe(z3.SubString(v2,2,z3.Length(v2)-2),z3.Plus(z3.Range('0','1')))))
hexd=z3.Plus(z3.Union(z3.Range('0','9'),z3.Range('a','f'),z3.Range('A','F')))
chk('0x', z3.InRe(v,Rp), v2!=SV('0'), z3.Not(z3.PrefixOf(SV('0b'),v2)), z3.PrefixOf(SV('0x'),v2), z3.Not(z3.InRe(z3.SubString(v2,2,z3.Length(v2)-2),hexd)))
chk('oct', z3.InRe(v,Rp), v2!=SV('0'), z3.Not(z3.PrefixOf(SV('0b'),v2)), z3.Not(z3.PrefixOf(SV('0x'),v2)), z3.PrefixOf(SV('0'),v2), z3.Not(z3.InRe(v2,z3.Plus(z3.Range('0','7')))))
dec=z3.Plus(z3.Range('0','9'))
chk('dec', z3.InRe(v,Rp), v2!=SV('0'), z3.Not(z3.PrefixOf(SV('0'),v2)), z3.Not(z3.Contains(v2,SV(':'))), z3.Not(z3.InRe(v2,dec)))
sexa=z3.Concat(dec,z3.Plus(z3.Concat(z3.Re(':'),dec)))
chk('sexa', z3.InRe(v,Rp), v2!=SV('0'), z3.Not(z3.PrefixOf(SV('0'),v2)), z3.Contains(v2,SV(':')), z3.Not(z3.InRe(v2,sexa)))
print('--- split sign, w free')
w=z3.String('w')
for nm,pre in (('unsigned',[v==w, z3.Not(signed)]),('signed',[z3.Or(v==z3.Concat(SV('-'),w), v==z3.Concat(SV('+'),w))])):
    base=[z3.InRe(v,Rp)]+pre+[w!=SV('0')]
    chk(nm+' oct', *base, z3.Not(z3.PrefixOf(SV('0b'),w)), z3.Not(z3.PrefixOf(SV('0x'),w)), z3.PrefixOf(SV('0'),w), z3.Not(z3.InRe(w,z3.Plus(z3.Range('0','7')))))
    chk(nm+' dec', *base, z3.Not(z3.PrefixOf(SV('0'),w)), z3.Not(z3.Contains(w,SV(':'))), z3.Not(z3.InRe(w,dec)))
    chk(nm+' sexa', *base, z3.Not(z3.PrefixOf(SV('0'),w)), z3.Contains(w,SV(':')), z3.Not(z3.InRe(w,sexa)))
print('--- pure regex')
A=z3.Full(z3.ReSort(z3.StringSort()))
sign=z3.Option(z3.Union(z3.Re('-'),z3.Re('+')))
def pre(p): return z3.Concat(z3.Re(p),A)
def no(r): return z3.Complement(r)
bad_oct=z3.Intersect(no(z3.Re('0')),no(pre('0b')),no(pre('0x')),pre('0'),no(z3.Plus(z3.Range('0','7'))))
chk('re oct', z3.InRe(v, z3.Intersect(Rp, z3.Concat(sign,bad_oct))))
cont=z3.Concat(A,z3.Re(':'),A)
chk('re dec', z3.InRe(v, z3.Intersect(Rp, z3.Concat(sign,z3.Intersect(no(z3.Re('0')),no(pre('0')),no(cont),no(dec))))))
chk('re sexa', z3.InRe(v, z3.Intersect(Rp, z3.Concat(sign,z3.Intersect(no(z3.Re('0')),no(pre('0')),cont,no(sexa))))))
sol=z3.Solver(); sol.add(z3.InRe(v,Rp), v==w, z3.Not(signed), w!=SV('0'), z3.Not(z3.PrefixOf(SV('0'),w)), z3.Not(z3.Contains(w,SV(':'))), z3.Not(z3.InRe(w,dec)))
open('q_dec.smt2','w').write('(set-logic QF_SLIA)\n'+sol.to_smt2())
