import sys, random, itertools, collections
sys.path.insert(0,'/repo/lib')
import yaml
alpha=['a',' ','\n','\x85',' ',"'",'"','\\',':','#','-','\t','﻿','😀','é','\r']
stats=collections.Counter(); ex={}
def check(x,**o):
    try:
        t=yaml.safe_dump(x,**o)
    except Exception as e:
        return 'dump '+type(e).__name__
    try:
        y=yaml.safe_load(t)
    except Exception as e:
        return 'load '+type(e).__name__
    if y!=x: return 'neq'
    return None
opts=[dict(),dict(default_style='>'),dict(default_style='|'),dict(default_style='"'),dict(default_style="'"),dict(allow_unicode=True),dict(allow_unicode=True,default_style='>'),dict(allow_unicode=True,default_style='|'),dict(allow_unicode=True,default_style="'"),dict(width=4,default_style='>'),dict(width=4),dict(indent=9,width=4,default_style='>'),dict(default_flow_style=True),dict(canonical=True)]
n=0
for L in range(0,5):
    for tup in itertools.product(alpha,repeat=L):
        s=''.join(tup)
        for shape in (lambda s:s, lambda s:[s], lambda s:{s:s}, lambda s:{'k':[{'k':s}]}):
            x=shape(s)
            for o in opts:
                n+=1
                r=check(x,**o)
                if r:
                    k=(r,tuple(sorted(o.items())))
                    stats[k]+=1; ex.setdefault(k,(x,o))
    print('len',L,'cases',n,'fail',sum(stats.values()),flush=True)
    if L==3: break
for k,v in stats.most_common(40): print(v,k,'e.g.',repr(ex[k][0]))
