import z3, time
P=z3.DeclareSort('Pair')                       # (key_node, value_node) pairs, abstract
SP=z3.SeqSort(P)
orig=z3.Const('orig',SP)
ismerge=z3.Function('ismerge',P,z3.BoolSort())
contrib=z3.Function('contrib',P,SP)            # flattened pairs contributed by a merge entry (callee contract result)
own=z3.Function('own',z3.IntSort(),SP); M=z3.Function('M',z3.IntSort(),SP)
j=z3.Int('j')
ax=[own(0)==z3.Empty(SP), M(0)==z3.Empty(SP),
    z3.ForAll([j], z3.Implies(z3.And(j>=0,j<z3.Length(orig)),
        z3.And(own(j+1)==z3.If(ismerge(orig[j]), own(j), z3.Concat(own(j),z3.Unit(orig[j]))),
               M(j+1)==z3.If(ismerge(orig[j]), z3.Concat(M(j),contrib(orig[j])), M(j)))))]
value=z3.Const('value',SP); merge=z3.Const('merge',SP); index=z3.Int('index'); g=z3.Int('g')  # g = ghost j
inv=lambda value,merge,index,g: z3.And(0<=g, g<=z3.Length(orig), index==z3.Length(own(g)),
        value==z3.Concat(own(g), z3.Extract(orig,g,z3.Length(orig)-g)), merge==M(g))
guard=index<z3.Length(value)
cur=value[index]
def check(name,*fs):
    s=z3.Solver(); s.set('timeout',60000); s.add(*ax); s.add(*fs); t=time.time(); r=s.check(); print(name,r,round(time.time()-t,2))
# fact: under inv and guard, value[index] == orig[g] and g < len(orig)
check('cur-is-orig[g]', inv(value,merge,index,g), guard, z3.Not(z3.And(g<z3.Length(orig), cur==orig[g])))
# branch non-merge: index+1
check('step non-merge', inv(value,merge,index,g), guard, g<z3.Length(orig), cur==orig[g], z3.Not(ismerge(cur)),
      z3.Not(inv(value,merge,index+1,g+1)))
# branch merge(mapping): del value[index]; merge.extend(contrib)
value2=z3.Concat(z3.Extract(value,0,index), z3.Extract(value,index+1,z3.Length(value)-index-1))
merge2=z3.Concat(merge,contrib(cur))
check('step merge', inv(value,merge,index,g), guard, g<z3.Length(orig), cur==orig[g], ismerge(cur),
      z3.Not(inv(value2,merge2,index,g+1)))
# exit: not guard => g == len(orig) ; final value == M(n) ++ own(n)
check('exit', inv(value,merge,index,g), z3.Not(guard), z3.Not(z3.And(g==z3.Length(orig), z3.Concat(merge,value)==z3.Concat(M(z3.Length(orig)),own(z3.Length(orig))))))
# mutant: merge + value order swapped should fail post
check('mutant-order (expect sat/unknown)', inv(value,merge,index,g), z3.Not(guard), z3.Concat(value,merge)!=z3.Concat(M(z3.Length(orig)),own(z3.Length(orig))))
print('--- with axiom instantiated at g, plus tail-unfolding lemma')
def inst(k): return z3.Implies(z3.And(k>=0,k<z3.Length(orig)),
        z3.And(own(k+1)==z3.If(ismerge(orig[k]), own(k), z3.Concat(own(k),z3.Unit(orig[k]))),
               M(k+1)==z3.If(ismerge(orig[k]), z3.Concat(M(k),contrib(orig[k])), M(k))))
n=z3.Length(orig)
tail=z3.Implies(z3.And(g>=0,g<n), z3.Extract(orig,g,n-g)==z3.Concat(z3.Unit(orig[g]), z3.Extract(orig,g+1,n-g-1)))
def check2(name,*fs):
    s=z3.Solver(); s.set('timeout',60000); s.add(own(0)==z3.Empty(SP), M(0)==z3.Empty(SP), inst(g), tail); s.add(*fs); t=time.time(); r=s.check(); print(name,r,round(time.time()-t,2))
check2('step non-merge', inv(value,merge,index,g), guard, g<n, cur==orig[g], z3.Not(ismerge(cur)), z3.Not(inv(value,merge,index+1,g+1)))
check2('step merge', inv(value,merge,index,g), guard, g<n, cur==orig[g], ismerge(cur), z3.Not(inv(value2,merge2,index,g+1)))
