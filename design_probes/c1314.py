import sys, random, collections
sys.path.insert(0,'/repo/lib')
import yaml
from yaml.nodes import *
rnd=random.Random(2)
# random documents with anchors/aliases/merges in flow style
def gen(depth,anchors,state):
    r=rnd.random()
    if anchors and r<0.2: return '*'+rnd.choice(anchors)
    pre=''
    if r<0.5:
        a='a%d'%state['n']; state['n']+=1; pre='&'+a+' '
    k=rnd.random()
    if depth>2 or k<0.3:
        out=pre+rnd.choice(['x','y','1','<<','"<<"','~','[]'])
        if pre: anchors.append(a)
        return out
    if pre and rnd.random()<0.7: anchors.append(a)   # allow self reference sometimes
    if k<0.55:
        items=[gen(depth+1,anchors,state) for _ in range(rnd.randint(0,3))]
        out=pre+'['+', '.join(items)+']'
    else:
        items=[]
        for _ in range(rnd.randint(0,3)):
            key=rnd.choice(['<<','k1','k2','k3','? '+gen(depth+1,anchors,state)]) if rnd.random()<.8 else gen(depth+1,anchors,state)
            items.append(key+' : '+gen(depth+1,anchors,state))
        tag=rnd.choice(['','','','!!set ','!!omap ','!!pairs '])
        out=pre+tag+'{'+', '.join(items)+'}'
    if pre and a not in anchors: anchors.append(a)
    return out
stats=collections.Counter(); ex={}
def ident_classes(obj, seen, out, path):
    if isinstance(obj,(list,dict,set)):
        out.setdefault(id(obj),[]).append(path)
        if id(obj) in seen: return
        seen.add(id(obj))
        if isinstance(obj,list):
            for i,v in enumerate(obj): ident_classes(v,seen,out,path+(i,))
        elif isinstance(obj,dict):
            for i,(k,v) in enumerate(obj.items()): ident_classes(k,seen,out,path+('k',i)); ident_classes(v,seen,out,path+('v',i))
    elif isinstance(obj,tuple):
        for i,v in enumerate(obj): ident_classes(v,seen,out,path+(i,))
for t in range(60000):
    doc=gen(0,[],{'n':0})
    try:
        v=yaml.safe_load(doc); stats['ok']+=1
    except yaml.YAMLError as e: stats[type(e).__name__]+=1
    except RecursionError: stats['RecursionError']+=1; ex.setdefault('RecursionError',doc)
    except Exception as e:
        k=type(e).__name__+': '+str(e)[:50]; stats[k]+=1; ex.setdefault(k,doc)
print(stats)
for k,v in ex.items(): print(k,'=>',v)
