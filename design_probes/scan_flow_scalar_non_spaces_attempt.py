"""Attempted contract for Scanner.scan_flow_scalar_non_spaces: 5690 obligations, 36 min, two stay undecided
(int(prefix(n), 16) after the per-character hex check; chr(code) range = finding F1).  Not registered."""
# ---- quoted scalars: text runs, '' and backslash escapes (C03: \xXX \uXXXX \UXXXXXXXX never leave the scanner as a non-YAML error)
_NS_INV = [inv_reader, "self.index >= old(self.index)", "typeis(chunks, 'list') and fresh(chunks)", "typeis(double, 'bool')"]
sc('scan_flow_scalar_non_spaces', params={'double': 'bool'}, result='list', max_paths=12,
   ensures=["self.index >= old(self.index)", "fresh(result)"], labels={0: 'only-moves-forward', 1: 'a-new-list-of-chunks'},
   invariants={0: _NS_INV,
               1: _NS_INV + [POS_SAME if False else "self.index == before_loop(self.index)", "length >= 0 and self.index + length < len(S(self))",
                             "forall(j, 0, length, S(self)[self.index + j] not in '\\0')"],
               2: _NS_INV + ["self.index == before_loop(self.index)", "typeis(length, 'int') and (length == 2 or length == 4 or length == 8)",
                             "self.index + loop_i < len(S(self))",
                             "forall(j, 0, loop_i, S(self)[self.index + j] in '0123456789ABCDEFabcdef')"]},
   modifies=MODF)
contract(SC + 'scan_flow_scalar_breaks', trusted=True, why='line folding inside quoted scalars: only its frame and "moves forward" are used by scan_flow_scalar_non_spaces',
         axioms=[pos_defs], requires=[inv_reader], result='list', ensures=[inv_reader, "self.index >= old(self.index)", "fresh(result)"],
         modifies=MODF, raises=RAISES, raises_any=True)

