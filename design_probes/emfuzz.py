import sys, random, io, collections
sys.path.insert(0,'/repo/lib')
import yaml
from yaml.events import *
from yaml.emitter import Emitter, EmitterError
rnd=random.Random(7)
texts=['','a','a b','- a',': x','a\nb','a\n','\n',' a','a ','é','\x85',' x','#c','a: b','---','...x','"','\'','﻿','\x07','😀', 'a'*130, 'x y '*30]
def rs(): return rnd.choice(texts)
def mk():
    k=rnd.randint(0,9)
    if k==0: return StreamStartEvent(encoding=rnd.choice([None,'utf-8','utf-16-le']))
    if k==1: return StreamEndEvent()
    if k==2: return DocumentStartEvent(explicit=rnd.choice([True,False,None]),version=rnd.choice([None,(1,1),(1,2),(2,0)]),tags=rnd.choice([None,{'!e!':'tag:x,2000:'},{'!':'!a'},{'bad':'x'},{'!e!':''}]))
    if k==3: return DocumentEndEvent(explicit=rnd.choice([True,False,None]))
    if k==4: return AliasEvent(rnd.choice(['a',None,'b c','']))
    if k in (5,6): 
        tag=rnd.choice([None,'!','!x','tag:yaml.org,2002:str','tag:x,2000:y','','!e!','é'])
        return ScalarEvent(rnd.choice([None,'a','b!']),tag,rnd.choice([(True,False),(False,True),(False,False),(True,True)]),rs(),style=rnd.choice([None,'','"',"'",'|','>']))
    if k==7: return (SequenceStartEvent if rnd.random()<.5 else MappingStartEvent)(rnd.choice([None,'a']),rnd.choice([None,'!x','tag:yaml.org,2002:map']),rnd.choice([True,False]),flow_style=rnd.choice([True,False,None]))
    if k==8: return SequenceEndEvent()
    return MappingEndEvent()
def wellformed(depth=0):
    # generate grammar-conforming node events
    r=rnd.random()
    if depth>3 or r<.5: 
        e=mk()
        while not isinstance(e,(ScalarEvent,)) : e=mk()
        return [e]
    if r<.75:
        s=mk()
        while not isinstance(s,SequenceStartEvent): s=mk()
        out=[s]
        for _ in range(rnd.randint(0,3)): out+=wellformed(depth+1)
        return out+[SequenceEndEvent()]
    s=mk()
    while not isinstance(s,MappingStartEvent): s=mk()
    out=[s]
    for _ in range(rnd.randint(0,3)): out+=wellformed(depth+1)+wellformed(depth+1)
    return out+[MappingEndEvent()]
stats=collections.Counter(); examples={}
for t in range(60000):
    if rnd.random()<.5:
        evs=[mk() for _ in range(rnd.randint(1,8))]
    else:
        evs=[StreamStartEvent()]
        for _ in range(rnd.randint(0,2)):
            d=mk()
            while not isinstance(d,DocumentStartEvent): d=mk()
            evs+= [d]+wellformed()+[DocumentEndEvent(explicit=rnd.choice([True,False]))]
        evs.append(StreamEndEvent())
    opts=dict(canonical=rnd.choice([None,True]),indent=rnd.choice([None,1,4,9,12]),width=rnd.choice([None,3,10,80]),allow_unicode=rnd.choice([None,True]),line_break=rnd.choice([None,'\r\n','x']))
    try:
        yaml.emit(evs, **opts); stats['ok']+=1
    except EmitterError: stats['EmitterError']+=1
    except Exception as e:
        k=type(e).__name__+': '+str(e)[:60]; stats[k]+=1
        examples.setdefault(k,(evs,opts))
for k,v in stats.most_common(): print(v,k)
for k,(evs,opts) in list(examples.items())[:6]: print(k,'\n   ',evs,opts)
