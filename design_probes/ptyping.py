# dynamic validation of the planned "frame typing" of Parser states (design aid, not a proof)
import sys, glob, random
sys.path.insert(0,'/repo/lib')
import yaml
from yaml.events import *
from yaml.tokens import *
from yaml.parser import Parser, ParserError
CUR = {  # frames accounted for by the current state (bottom..top); pos of the top frame AFTER pending work
 'parse_stream_start':[], 'parse_implicit_document_start':[], 'parse_document_start':[],
 'parse_document_end':['DOC:end'], 'parse_document_content':['DOC:node'],  # content: DOC frame accounted by stacked document_end
 'parse_block_node':[], 'parse_flow_node':[], 'parse_block_node_or_indentless_sequence':[],
 'parse_block_sequence_first_entry':['SEQ'], 'parse_block_sequence_entry':['SEQ'],
 'parse_indentless_sequence_entry':['SEQ'],
 'parse_block_mapping_first_key':['MAP:k'], 'parse_block_mapping_key':['MAP:k'], 'parse_block_mapping_value':['MAP:v'],
 'parse_flow_sequence_first_entry':['SEQ'], 'parse_flow_sequence_entry':['SEQ'],
 'parse_flow_sequence_entry_mapping_key':['SEQ','MAP:k'], 'parse_flow_sequence_entry_mapping_value':['SEQ','MAP:v'],
 'parse_flow_sequence_entry_mapping_end':['SEQ','MAP:k'],
 'parse_flow_mapping_first_key':['MAP:k'], 'parse_flow_mapping_key':['MAP:k'], 'parse_flow_mapping_value':['MAP:v'],
 'parse_flow_mapping_empty_value':['MAP:v'],
}
def back(fr):  # a stacked continuation accounts for its frames with the top one a node earlier
    fr=list(fr)
    if not fr: return fr
    t=fr[-1]
    fr[-1]={'MAP:k':'MAP:v','MAP:v':'MAP:k','SEQ':'SEQ','DOC:end':'DOC:node'}[t]
    return fr
NODE_STATES={'parse_block_node','parse_flow_node','parse_block_node_or_indentless_sequence','parse_document_content'}
def predicted(p):
    g=[]
    for s in p.states: g+=back(CUR[s.__name__])
    if p.state is not None:
        n=p.state.__name__
        g+= [] if n=='parse_document_content' else CUR[n]
    return g
def step(g,ev):
    def node_done():
        if not g: raise AssertionError('node outside doc')
        t=g[-1]
        if t=='DOC:node': g[-1]='DOC:end'
        elif t=='MAP:k': g[-1]='MAP:v'
        elif t=='MAP:v': g[-1]='MAP:k'
        elif t=='SEQ': pass
        else: raise AssertionError('node not allowed at '+t)
    def node_allowed():
        assert g and g[-1] in ('DOC:node','MAP:k','MAP:v','SEQ'), ('node start not allowed',g)
    if isinstance(ev,StreamStartEvent): assert g==['PRE']; g[:]=[]
    elif isinstance(ev,StreamEndEvent): assert g==[]; g[:]=['POST']
    elif isinstance(ev,DocumentStartEvent): assert g==[]; g.append('DOC:node')
    elif isinstance(ev,DocumentEndEvent): assert g==['DOC:end'],g; g.pop()
    elif isinstance(ev,(AliasEvent,ScalarEvent)): node_allowed(); node_done()
    elif isinstance(ev,SequenceStartEvent): node_allowed(); g.append('SEQ')
    elif isinstance(ev,MappingStartEvent): node_allowed(); g.append('MAP:k')
    elif isinstance(ev,SequenceEndEvent): assert g[-1]=='SEQ',g; g.pop(); node_done()
    elif isinstance(ev,MappingEndEvent): assert g[-1]=='MAP:k',g; g.pop(); node_done()
class Stub(Parser):
    def __init__(self,toks): Parser.__init__(self); self.toks=list(toks)
    def check_token(self,*c): return bool(self.toks) and (not c or isinstance(self.toks[0],c))
    def peek_token(self): return self.toks[0] if self.toks else None
    def get_token(self): return self.toks.pop(0) if self.toks else None
def run(parser, label):
    g=['PRE']; n=0; lastidx=-1
    while True:
        try: ev=parser.get_event()
        except yaml.YAMLError: return n
        if ev is None: break
        step(g,ev); n+=1
        if g not in (['POST'],):
            pg=predicted(parser)
            # pending node states: top frame has a node pending -> grammar stack equals prediction exactly
            assert pg==g, (label, type(ev).__name__, parser.state and parser.state.__name__, [s.__name__ for s in parser.states], 'pred',pg,'actual',g)
            nm=sum(1 for f in g if f!='DOC:node' and f!='DOC:end')
        if ev.start_mark and ev.end_mark:
            assert ev.start_mark.index<=ev.end_mark.index
            assert ev.start_mark.index>=lastidx, (label,'non-monotone',ev,lastidx); lastidx=ev.start_mark.index
    assert g==['POST'],g
    return n
tot=0
files=sorted(glob.glob('/repo/tests/legacy_tests/data/*'))
for f in files:
    try: data=open(f,'rb').read()
    except Exception: continue
    try: tot+=run(yaml.Loader(data), f)
    except yaml.YAMLError: pass
print('corpus events',tot)
# random token streams into the bare parser
M=yaml.Mark('x',0,0,0,None,None)
def mk(i): return yaml.Mark('x',i,0,i,None,None)
kinds=[lambda a,b:DocumentStartToken(a,b),lambda a,b:DocumentEndToken(a,b),lambda a,b:BlockSequenceStartToken(a,b),
 lambda a,b:BlockMappingStartToken(a,b),lambda a,b:BlockEndToken(a,b),lambda a,b:FlowSequenceStartToken(a,b),lambda a,b:FlowMappingStartToken(a,b),
 lambda a,b:FlowSequenceEndToken(a,b),lambda a,b:FlowMappingEndToken(a,b),lambda a,b:KeyToken(a,b),lambda a,b:ValueToken(a,b),lambda a,b:BlockEntryToken(a,b),
 lambda a,b:FlowEntryToken(a,b),lambda a,b:AliasToken('a',a,b),lambda a,b:AnchorToken('a',a,b),lambda a,b:TagToken(('!','t'),a,b),lambda a,b:ScalarToken('v',True,a,b),
 lambda a,b:DirectiveToken('YAML',(1,1),a,b),lambda a,b:DirectiveToken('TAG',('!e!','x'),a,b)]
rnd=random.Random(1); tot=0; oth=0
for t in range(200000):
    n=rnd.randint(0,9); toks=[StreamStartToken(mk(0),mk(0))]
    for i in range(n): toks.append(rnd.choice(kinds)(mk(2*i+1),mk(2*i+2)))
    toks.append(StreamEndToken(mk(2*n+1),mk(2*n+1)))
    try: tot+=run(Stub(toks),'rand%d'%t)
    except AssertionError: raise
    except Exception as e:
        oth+=1
        if oth<5: print('non-YAML exception', type(e).__name__, e, [type(x).__name__ for x in toks])
print('random token streams ok, events',tot,'non-yaml exceptions',oth)
