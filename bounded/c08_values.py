"""BOUNDED stand-in for C08 (value half): the VALUE that safe_load gives to a plain scalar of the int, float and timestamp families,
compared with an independent reading of the YAML 1.1 type definitions, on a finite grid of spellings (stated in `bound`).
The languages (which texts belong to which type) are decided for all texts by the regex front; the converter contracts decide result
type and exception class for all texts; what a converter COMPUTES (int(), float(), datetime arithmetic) is outside the verifier's
reach, hence this labelled stand-in.  Never counted as proved."""
import itertools, datetime, math, fractions
import yaml
from common import args, Report

a = args()
thorough = a.tier == 'thorough'
R = Report('grid of spellings: ints {sign} x {decimal, 0b, 0x, octal, sexagesimal} x {underscores}; floats {sign} x {fixed, exponent, '
           'sexagesimal, .inf, .nan} x {case, underscores}; timestamps {3 dates} x {4 separators} x {hours} x {fractions} x {14 utc offsets}'
           + (' (thorough: denser grid)' if thorough else ''))


def check(text, want, same):
    R.cases += 1
    try:
        got = yaml.safe_load(text)
    except Exception as e:
        R.fail('value', {'text': text}, 'raised %s: %s (expected %r)' % (type(e).__name__, e, want))
        return
    if type(got) is not type(want) or not same(got, want):
        R.fail('value', {'text': text}, 'safe_load gives %r, the YAML 1.1 reading is %r' % (got, want))


# ---------------------------------------------------------------- integers (http://yaml.org/type/int.html)
def spec_int(text):
    t = text.replace('_', '')
    neg = t.startswith('-')
    if t[0] in '+-':
        t = t[1:]
    if t.startswith('0b'):
        v = sum(int(c) << k for k, c in enumerate(reversed(t[2:])))
    elif t.startswith('0x'):
        v = 0
        for c in t[2:]:
            v = v * 16 + '0123456789abcdef'.index(c.lower())
    elif ':' in t:
        v = 0
        for part in t.split(':'):
            v = v * 60 + int(part, 10)
    elif t != '0' and t.startswith('0'):
        v = 0
        for c in t[1:]:
            v = v * 8 + int(c)
    else:
        v = int(t, 10)
    return -v if neg else v


INTS = ['0', '7', '12', '685230', '1_000', '6_8_5', '0b0', '0b1010', '0b1_1', '0x0', '0xC', '0xff', '0x_1F', '00', '014', '0_17', '1:0', '1:30', '190:20:30', '1_0:59', '3:25:45']
if thorough:
    INTS += ['0b' + ''.join(p) for p in itertools.product('01', repeat=4)] + ['0x' + c for c in '0123456789abcdefABCDEF'] + ['0%o' % n for n in range(1, 70)] + \
            ['%d:%02d' % (h, m) for h in (1, 9, 59, 100) for m in (0, 1, 30, 59)]
for sign in ['', '+', '-']:
    for body in INTS:
        text = sign + body
        if yaml.resolver.Resolver().resolve(yaml.ScalarNode, text, (True, False)) != 'tag:yaml.org,2002:int':
            continue        # not an int by the language: the regex front decides that side
        check(text, spec_int(text), lambda g, w: g == w)


# ---------------------------------------------------------------- floats (http://yaml.org/type/float.html)
def spec_float(text):
    t = text.replace('_', '').lower()
    neg = t.startswith('-')
    if t[0] in '+-':
        t = t[1:]
    if t == '.inf':
        return -math.inf if neg else math.inf
    if t == '.nan':
        return math.nan
    if ':' in t:
        v = fractions.Fraction(0)
        for part in t.split(':'):
            v = v * 60 + fractions.Fraction(part)
        v = float(v)
    else:
        v = float(fractions.Fraction(t)) if 'e' not in t else float(t)
    return -v if neg else v


def same_float(g, w):
    if math.isnan(w):
        return math.isnan(g)
    if math.isinf(w):
        return g == w
    return g == w or abs(g - w) <= 1e-9 * max(1.0, abs(w))     # the implementation sums base-60 digits in floating point


FLOATS = ['.inf', '.Inf', '.INF', '.nan', '.NaN', '.NAN', '1.0', '0.5', '6.8523015e+5', '685.230_15e+03', '685_230.15', '1.5e-3', '1.E+2', '.5', '1:30.5', '190:20:30.15', '0:0.5', '1_0:59.9']
if thorough:
    FLOATS += ['%d.%d' % (i, f) for i in (0, 1, 42) for f in (0, 5, 25, 125)] + ['%d:%02d.%d' % (h, m, f) for h in (0, 1, 60) for m in (0, 30, 59) for f in (0, 5)] + \
              ['%s.%se%s%d' % (i, f, s, e) for i in '19' for f in '05' for s in '+-' for e in (0, 1, 10)]
for sign in ['', '+', '-']:
    for body in FLOATS:
        text = sign + body
        if yaml.resolver.Resolver().resolve(yaml.ScalarNode, text, (True, False)) != 'tag:yaml.org,2002:float':
            continue
        if body.lower() == '.nan' and sign:
            continue
        check(text, spec_float(text), same_float)


# ---------------------------------------------------------------- timestamps (http://yaml.org/type/timestamp.html)
DATES = [('2001', '12', '14'), ('2000', '2', '29'), ('1999', '01', '1')]
SEPS = ['T', 't', ' ', '  ']      # a tab is in the timestamp language but PyYAML's scanner does not continue a plain scalar over a tab
                                   # (a scanner matter, outside C08's typing rule): not in the grid
HOURS = ['0', '7', '23', '09'] if not thorough else ['0', '1', '7', '9', '09', '12', '23']
MINSEC = [('00', '00'), ('59', '59')] if not thorough else [('00', '00'), ('59', '59'), ('30', '01')]
FRACS = [None, '', '5', '25', '123456', '1234567']
OFFS = [None, 'Z', ' Z', '+0', '-0', '+00:30', '-00:30', '-0:30', '+5', '-05', '+05:45', '-12:00', ' +01:00', ' -1:15', '+14:00']
for (y, mo, d) in DATES:
    check('%s-%s-%s' % (y, mo, d), datetime.date(int(y), int(mo), int(d)), lambda g, w: g == w) if len(mo) == 2 and len(d) == 2 else None
    for sep, h, (mi, se), fr, off in itertools.product(SEPS, HOURS, MINSEC, FRACS, OFFS):
        text = '%s-%s-%s%s%s:%s:%s' % (y, mo, d, sep, h, mi, se)
        if fr is not None:
            text += '.' + fr
        if off is not None:
            text += off
        if yaml.resolver.Resolver().resolve(yaml.ScalarNode, text, (True, False)) != 'tag:yaml.org,2002:timestamp':
            continue
        micro = int(((fr or '') + '000000')[:6])
        tz = None
        if off is not None:
            o = off.strip()
            if o == 'Z':
                tz = datetime.timezone.utc
            else:
                hh, _, mm = o[1:].partition(':')
                minutes = int(hh) * 60 + int(mm or 0)
                tz = datetime.timezone(datetime.timedelta(minutes=-minutes if o[0] == '-' else minutes))
        want = datetime.datetime(int(y), int(mo), int(d), int(h), int(mi), int(se), micro, tzinfo=tz)
        check(text, want, lambda g, w: g == w and g.utcoffset() == w.utcoffset() and g.replace(tzinfo=None) == w.replace(tzinfo=None))
R.done()
