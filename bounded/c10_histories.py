"""BOUNDED stand-in for C10: every history of registrations (up to a stated length) over a small class lattice rooted at a
shipped loader/dumper, executed on the real classes, compared with the rule in the property (copy-on-write model)."""
import itertools, copy, sys, re
import yaml
from common import args, Report

a = args()
L = 3 if a.tier == 'quick' else 4
R = Report('all histories of length <= %d over ops {6 registration kinds} x {A, B(A), C(A), D(B)} rooted at SafeLoader+SafeDumper and FullLoader+Dumper' % L)
KINDS = ['yaml_constructors', 'yaml_multi_constructors', 'yaml_representers', 'yaml_multi_representers', 'yaml_implicit_resolvers', 'yaml_path_resolvers']
LOADER_KINDS = {'yaml_constructors', 'yaml_multi_constructors', 'yaml_implicit_resolvers', 'yaml_path_resolvers'}
FIRSTS = [['x'], ['1', '~'], ['x', 'y'], None]
SHIPPED = [yaml.BaseLoader, yaml.SafeLoader, yaml.FullLoader, yaml.UnsafeLoader, yaml.Loader, yaml.BaseDumper, yaml.SafeDumper, yaml.Dumper]


def snap_tables(c):
    out = {}
    for k in KINDS:
        if hasattr(c, k):
            t = getattr(c, k)
            out[k] = {kk: (list(v) if isinstance(v, list) else v) for kk, v in t.items()}
    return out


def snapshot_shipped():
    s = {}
    for c in SHIPPED:
        for k in KINDS:
            if k in c.__dict__:
                t = c.__dict__[k]
                s[(c, k)] = (t, {kk: (list(v) if isinstance(v, list) else v) for kk, v in t.items()})
    for c in SHIPPED:       # own-ness itself must not change either
        s[(c, 'own')] = sorted(k for k in KINDS if k in c.__dict__)
    return s


def restore_shipped(s):
    for c in SHIPPED:
        for k in KINDS:
            if k in c.__dict__ and (c, k) not in s:
                delattr(c, k)
    for (c, k), v in s.items():
        if k == 'own':
            continue
        t, content = v
        t.clear()
        for kk, vv in content.items():
            t[kk] = list(vv) if isinstance(vv, list) else vv
        setattr(c, k, t)


def fn(i):
    def f(*a_):
        return i
    f.__name__ = 'f%d' % i
    return f


def run_history(rootL, rootD, hist):
    A = type('A', (rootL,), {}); B = type('B', (A,), {}); C = type('C', (A,), {}); D = type('D', (B,), {})
    AD = type('AD', (rootD,), {}); BD = type('BD', (AD,), {}); CD = type('CD', (AD,), {}); DD = type('DD', (BD,), {})
    Ls = {'A': A, 'B': B, 'C': C, 'D': D}
    Ds = {'A': AD, 'B': BD, 'C': CD, 'D': DD}
    parents = {'A': None, 'B': 'A', 'C': 'A', 'D': 'B'}
    # model: own tables per (class name, kind); lookup walks parents, then the root's effective table
    base = {}
    for k in KINDS:
        r = rootL if k in LOADER_KINDS else rootD
        base[k] = snap_tables(r).get(k, {})
    own = {}

    def view(n, k):
        while n is not None:
            if (n, k) in own:
                return own[(n, k)]
            n = parents[n]
        return base[k]
    for step, (n, k) in enumerate(hist):
        key = 'key%d' % step
        val = fn(step)
        if (n, k) not in own:
            own[(n, k)] = {kk: (list(v) if isinstance(v, list) else v) for kk, v in view(n, k).items()}
        if k == 'yaml_constructors':
            Ls[n].add_constructor(key, val); own[(n, k)][key] = val
        elif k == 'yaml_multi_constructors':
            Ls[n].add_multi_constructor(key, val); own[(n, k)][key] = val
        elif k == 'yaml_representers':
            t = type('T%d' % step, (), {}); Ds[n].add_representer(t, val); own[(n, k)][t] = val
        elif k == 'yaml_multi_representers':
            t = type('T%d' % step, (), {}); Ds[n].add_multi_representer(t, val); own[(n, k)][t] = val
        elif k == 'yaml_implicit_resolvers':
            rx = re.compile('x%d' % step)
            # the leading characters differ from one registration to the next: a fresh one, stock ones ('1', '~', 'y' have shipped
            # entries), both, and None (= the catch-all list), so that a later registration reaches lists the first one did not
            first = FIRSTS[step % len(FIRSTS)]
            Ls[n].add_implicit_resolver('!t%d' % step, rx, first)
            for ch in (first if first is not None else [None]):
                own[(n, k)].setdefault(ch, []).append(('!t%d' % step, rx))
        elif k == 'yaml_path_resolvers':
            Ls[n].add_path_resolver('!p%d' % step, [str(step)], dict)
            own[(n, k)][((( None, str(step)),), yaml.MappingNode)] = '!p%d' % step
    problems = []
    for n in 'ABCD':
        for k in KINDS:
            if k in ('yaml_representers', 'yaml_multi_representers'):
                cls = Ds[n]
            else:
                cls = Ls[n]
            got = snap_tables(cls).get(k)
            want = view(n, k)
            if k == 'yaml_representers' or k == 'yaml_multi_representers':
                got = {getattr(t, '__name__', t): v for t, v in got.items()}
                want = {getattr(t, '__name__', t): v for t, v in want.items()}
            if got != want:
                extra = sorted(map(str, set(map(str, got)) ^ set(map(str, want))))
                problems.append('class %s %s differs from the rule (keys differing: %s)' % (n, k, extra[:4]))
    return problems


def key_of(hist):
    return [list(h) for h in hist]


ops = [(n, k) for n in 'ABCD' for k in KINDS]
shipped0 = snapshot_shipped()
for rootL, rootD in [(yaml.SafeLoader, yaml.SafeDumper), (yaml.FullLoader, yaml.Dumper)]:
    for ln in range(1, L + 1):
        for hist in itertools.product(ops, repeat=ln):
            # representers only matter on the dumper lattice and vice versa; prune pure-duplicate permutations of independent kinds
            R.cases += 1
            try:
                problems = run_history(rootL, rootD, hist)
            except Exception as e:
                problems = ['exception %r' % (e,)]
            now = snapshot_shipped()
            changed = []
            for kk, v in shipped0.items():
                if kk[1] == 'own':
                    if now.get(kk) != v:
                        changed.append('%s own tables changed' % kk[0].__name__)
                    continue
                if kk not in now or now[kk][1] != v[1] or now[kk][0] is not v[0]:
                    changed.append('shipped %s.%s was changed' % (kk[0].__name__, kk[1]))
            if changed:
                problems += changed
                restore_shipped(shipped0)
            if problems:
                R.fail('registration-history', {'root': rootL.__name__, 'history': key_of(hist)}, '; '.join(problems[:3]))
                if len(R.failures) >= 5:
                    R.done()
R.done()
