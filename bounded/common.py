"""shared helpers for the bounded stand-ins (run under /venv/bin/python against $PYTHONPATH=<repo>/lib)"""
import sys, json, argparse, os, random, time


def args():
    ap = argparse.ArgumentParser()
    ap.add_argument('--property', default='')
    ap.add_argument('--tier', default=os.environ.get('VERIF_TIER', 'quick'))
    ap.add_argument('--seed', type=int, default=int(os.environ.get('VERIF_SEED', '0') or 0))
    ap.add_argument('--replay')
    return ap.parse_args()


class Report:
    def __init__(self, bound):
        self.cases = 0
        self.failures = []
        self.bound = bound
        self.t0 = time.time()

    def fail(self, check, inp, message):
        if len(self.failures) < 20:
            self.failures.append({'check': check, 'input': inp, 'message': str(message)[:500]})

    def done(self):
        print(json.dumps({'cases': self.cases, 'bound': self.bound, 'failures': self.failures, 'seconds': round(time.time() - self.t0, 2)}))
        sys.exit(1 if self.failures else 0)
