"""BOUNDED stand-in for C14 (merge flattening): SafeConstructor.flatten_mapping / construct_mapping are out of deductive reach
(nested quantified node-graph invariant through recursion, see DESIGN 5/C14), so the contract
    construct_mapping(m) == mapping_of(flat(m))        and        sequence nodes are never written
is SEARCHED on the real functions over all small node graphs:
    mappings with <= 3 entries drawn from {plain key, '<<' merge of a mapping, '<<' merge of a list of <= 2 mappings, quoted '<<', '=' key},
    merge sources nested <= 2 deep, sources optionally SHARED between two mappings that are flattened one after the other.
flat() / mapping_of() are written here from the property text (earlier element of a merge list wins, later merge key wins over an
earlier one, own keys win over merged ones, merges apply recursively, a quoted '<<' is an ordinary key)."""
import itertools, copy, sys
import yaml
from yaml.nodes import ScalarNode, SequenceNode, MappingNode
from yaml.constructor import SafeConstructor, ConstructorError
from common import args, Report

a = args()
DEPTH = 2
NENT = 3 if a.tier == 'quick' else 4
R = Report('all mappings with <= %d entries over {plain key, merge of mapping, merge of list of <= 2 mappings, quoted <<, = key}, sources nested <= %d, shared sources reused twice; every inner mapping node re-constructed after its user' % (NENT, DEPTH))
Y = 'tag:yaml.org,2002:'


def S(text, tag='str'):
    return ScalarNode(Y + tag, text)


def leaf_maps():
    # small source mappings (no further merges)
    return [lambda: MappingNode(Y + 'map', [(S('a'), S('1'))]),
            lambda: MappingNode(Y + 'map', [(S('a'), S('2')), (S('b'), S('3'))]),
            lambda: MappingNode(Y + 'map', [])]


def gen_map(depth):
    """generators (thunks) of mapping nodes up to the given merge nesting depth"""
    if depth == 0:
        return leaf_maps()
    prev = gen_map(depth - 1)
    # merge sources: the leaf mappings plus (for nested merges) a few mappings of the previous level that merge something themselves
    nested = [g for g in prev if any(k.tag == Y + 'merge' for k, _ in g().value)]
    subs = leaf_maps()[:2] + nested[:2] + leaf_maps()[2:]
    out = list(leaf_maps())
    entries = []
    entries.append(lambda: (S('a'), S('own-a')))
    entries.append(lambda: (S('c'), S('own-c')))
    entries.append(lambda: (S('<<'), S('quoted')))             # tag str: an ordinary key
    entries.append(lambda: (S('=', 'value'), S('dflt')))
    for s in subs[:4]:
        entries.append(lambda s=s: (S('<<', 'merge'), s()))
    for s1, s2 in itertools.product(subs[:3], repeat=2):
        entries.append(lambda s1=s1, s2=s2: (S('<<', 'merge'), SequenceNode(Y + 'seq', [s1(), s2()])))
    for n in range(1, NENT + 1):
        for combo in itertools.product(entries, repeat=n):
            out.append(lambda combo=combo: MappingNode(Y + 'map', [e() for e in combo]))
    return out


# ---- specification (from the property text), on an immutable snapshot of the node graph
def snap(node):
    if isinstance(node, ScalarNode):
        return ('s', node.tag, node.value)
    if isinstance(node, SequenceNode):
        return ('q', node.tag, tuple(snap(x) for x in node.value))
    return ('m', node.tag, tuple((snap(k), snap(v)) for k, v in node.value))


def flat(m):
    """pairs of a mapping after merging: merged pairs first (later merge key later, list sources reversed), own pairs after"""
    merged, own = [], []
    for k, v in m[2]:
        if k[0] == 's' and k[1] == Y + 'merge':
            if v[0] == 'm':
                merged.extend(flat(v))
            elif v[0] == 'q':
                parts = []
                for sub in v[2]:
                    if sub[0] != 'm':
                        raise ValueError('ill-shaped merge')
                    parts.append(flat(sub))
                for p in reversed(parts):
                    merged.extend(p)
            else:
                raise ValueError('ill-shaped merge')
        else:
            own.append((k, v))
    return merged + own


def value_of(s):
    if s[0] == 's':
        return s[2]
    if s[0] == 'q':
        return [value_of(x) for x in s[2]]
    return mapping_of(s)


def mapping_of(m):
    d = {}
    for k, v in flat(m):
        d[k[2]] = value_of(v)          # keys here are scalars; '=' keys are constructed as their text
    return d


def seq_lists(node, acc):
    if isinstance(node, SequenceNode):
        acc.append((node, list(node.value)))
        for x in node.value:
            seq_lists(x, acc)
    elif isinstance(node, MappingNode):
        for k, v in node.value:
            seq_lists(k, acc); seq_lists(v, acc)
    return acc


class C(SafeConstructor):
    pass


def construct(node):
    c = C()
    return c.construct_mapping(node, deep=True)


def map_nodes(node, acc):
    if isinstance(node, MappingNode):
        acc.append(node)
        for k, v in node.value:
            map_nodes(k, acc); map_nodes(v, acc)
    elif isinstance(node, SequenceNode):
        for x in node.value:
            map_nodes(x, acc)
    return acc


def check(label, node):
    R.cases += 1
    spec_before = snap(node)
    # every mapping node of the graph (merge sources included) with what it denoted BEFORE anything was flattened
    inner = [(mn, snap(mn)) for mn in map_nodes(node, [])[1:]]
    try:
        want = mapping_of(spec_before)
    except ValueError:
        want = ConstructorError
    seqs = seq_lists(node, [])
    try:
        got = construct(node)
    except ConstructorError:
        got = ConstructorError
    except Exception as e:
        R.fail('construct_mapping-raises-only-ConstructorError', {'case': label, 'node': repr(spec_before)[:300]}, '%s: %s' % (type(e).__name__, e))
        return
    if got != want:
        R.fail('construct_mapping-equals-mapping_of-flat', {'case': label, 'node': repr(spec_before)[:300]}, 'got %r want %r' % (got, want))
    for sq, before in seqs:
        if list(sq.value) != before or any(x is not y for x, y in zip(sq.value, before)):
            R.fail('sequence-nodes-never-written', {'case': label, 'node': repr(spec_before)[:300]}, 'a merge list was rewritten in place')
            break
    # "the same for every reuse of a shared merge source": flattening the outer mapping rewrites its sources in place; whatever it
    # did to them, each of them must still denote the mapping it denoted before (it may be merged again under another anchor use)
    if got is not ConstructorError:
        for mn, before in inner:
            try:
                want_mn = mapping_of(before)
            except ValueError:
                continue
            try:
                got_mn = construct(mn)
            except Exception as e:
                got_mn = '%s: %s' % (type(e).__name__, e)
            if got_mn != want_mn:
                R.fail('merge-source-denotes-the-same-mapping-after-use', {'case': label, 'node': repr(spec_before)[:300], 'source': repr(before)[:200]},
                       'after the outer mapping was constructed the source constructs as %r, before it denoted %r' % (got_mn, want_mn))
                break


gens = gen_map(DEPTH)
for i, g in enumerate(gens):
    check('single#%d' % i, g())
# shared merge sources: the same source node merged into two mappings that are constructed one after the other
srcs = gen_map(1)[:40]
for i, sg in enumerate(srcs):
    for shape in ('map', 'list'):
        src = sg()
        other = MappingNode(Y + 'map', [(S('z'), S('26'))])
        shared = src if shape == 'map' else SequenceNode(Y + 'seq', [src, other])
        m1 = MappingNode(Y + 'map', [(S('<<', 'merge'), shared), (S('k1'), S('v1'))])
        m2 = MappingNode(Y + 'map', [(S('k2'), S('v2')), (S('<<', 'merge'), shared)])
        w1, w2 = None, None
        try:
            w1, w2 = mapping_of(snap(m1)), mapping_of(snap(m2))
        except ValueError:
            continue
        R.cases += 1
        try:
            g1 = construct(m1)
            g2 = construct(m2)
            g1b = construct(m1)
        except Exception as e:
            R.fail('shared-merge-source', {'case': 'shared#%d/%s' % (i, shape)}, '%s: %s' % (type(e).__name__, e)); continue
        if g1 != w1 or g2 != w2 or g1b != w1:
            R.fail('shared-merge-source-reads-the-same-every-time', {'case': 'shared#%d/%s' % (i, shape), 'source': repr(snap(shared))[:300]},
                   'first use %r, second mapping %r (want %r), first again %r' % (g1, g2, w2, g1b))
R.done()
