"""Replay of counter-models on the real code (DESIGN 3.7, reduced): when the solver refutes an obligation of a function whose
parameters and receiver fields are scalars (None / bool / int / str / bytes), the model is turned into a concrete call of the REAL
function in /venv/bin/python (receiver built with object.__new__ + the model's field values), and the violated clause is evaluated on
what the call did.  Anything else (models that live in heap or ghost state, quantified or callable clauses) is reported as
no-failing-input-found by the caller.
"""
import json, os, subprocess, sys, textwrap
from . import REPO, VERIF

RUNNER = r'''
import sys, json, copy, ast, io
rec = json.loads(sys.stdin.read())
sys.path.insert(0, rec["lib"])
import yaml, importlib
mod = importlib.import_module(rec["module"])
cls = getattr(mod, rec["cls"]) if rec["cls"] else None


class _Stream(io.StringIO):
    pass


def dec(v):
    if isinstance(v, dict) and "bytes" in v:
        return bytes(v["bytes"])
    if isinstance(v, dict) and v.get("stream"):
        return _Stream()
    return v


if cls is not None:
    ctx_mod = importlib.import_module(rec["ctx_module"])
    ctx = getattr(ctx_mod, rec["ctx_cls"])
    self = object.__new__(ctx)
    for k, v in rec["fields"].items():
        setattr(self, k, dec(v))
    for k, kind in rec["defaults"].items():
        if not hasattr(self, k):
            setattr(self, k, {"list": [], "dict": {}, "stream": _Stream()}.get(kind, None) if kind in ("list", "dict", "stream") else None)
    fn = getattr(cls, rec["func"])
    args = [self] + [dec(a) for a in rec["args"]]
else:
    self = None
    fn = getattr(mod, rec["func"])
    args = [dec(a) for a in rec["args"]]
before = copy.copy(self)
out = {"raised": None, "result": None}
try:
    res = fn(*args)
    out["result"] = repr(res)[:300]
except BaseException as e:
    res = None
    out["raised"] = type(e).__name__
    out["message"] = str(e)[:300]


def implies(a, b):
    return (not a) or b


def typeis(x, t):
    return {"str": str, "int": int, "bool": bool, "bytes": bytes, "none": type(None), "list": list, "dict": dict, "tuple": tuple}.get(t, object) is type(x) or (t.startswith("obj:") and type(x).__name__ == t.rsplit(".", 1)[-1])


clause = rec.get("clause")
if clause and out["raised"] is None:
    env = {"self": self, "result": res, "implies": implies, "typeis": typeis, "len": len, "str": str, "True": True, "False": False, "None": None,
           "func": lambda n: getattr(self, n), "fresh": lambda x: True, "heapobj": lambda x: True, "code": ord}
    for n, a in zip(rec["params"], args[1:] if cls is not None else args):
        env[n] = a

    class Old(ast.NodeTransformer):
        def visit_Call(self, node):
            self.generic_visit(node)
            if isinstance(node.func, ast.Name) and node.func.id == "old":
                src = ast.unparse(node.args[0])
                v = eval(compile(ast.Expression(ast.parse(src, mode="eval").body), "<old>", "eval"), dict(env, self=before))
                return ast.Constant(v) if isinstance(v, (int, str, bool, bytes, type(None))) else node
            return node
    try:
        tree = Old().visit(ast.parse(rec["clause_py"], mode="eval"))
        ast.fix_missing_locations(tree)
        out["clause_value"] = bool(eval(compile(tree, "<clause>", "eval"), env))
    except Exception as e:
        out["clause_error"] = "%s: %s" % (type(e).__name__, e)
print(json.dumps(out))
'''


def run_concrete(rec, lib=None):
    """rec: the 'concrete' record of an obligation; returns the runner's observation dict"""
    rec = dict(rec)
    rec['lib'] = lib or os.path.join(REPO, 'lib')
    try:
        p = subprocess.run(['/venv/bin/python', '-c', RUNNER], input=json.dumps(rec), capture_output=True, text=True, timeout=60)
        if p.returncode != 0 or not p.stdout.strip():
            return {'error': (p.stderr or '')[-400:]}
        return json.loads(p.stdout.strip().splitlines()[-1])
    except Exception as e:
        return {'error': str(e)}


def confirms(ob_name, rec, obs):
    """does the observation on the real code reproduce the violated obligation?"""
    if 'error' in obs:
        return False
    if '/raises-only/' in ob_name:
        exc = ob_name.split('/raises-only/')[1].split('/')[0]
        return obs.get('raised') == exc
    if '/post/' in ob_name and rec.get('clause'):
        return obs.get('raised') is None and obs.get('clause_value') is False
    return False


def replay_file(pid, path):
    p = path if os.path.isabs(path) else os.path.join(VERIF, path)
    rec = json.load(open(p))
    print('obligation :', rec.get('obligation'))
    print('verdict    :', rec.get('verdict'), '| backend:', rec.get('backend'))
    print('detail     :', (rec.get('detail') or '')[:400])
    c = rec.get('concrete')
    if not c:
        w = rec.get('witness')
        if isinstance(w, dict) and w.get('input') is not None:
            print('bounded stand-in input:', json.dumps(w.get('input'))[:600])
            print('message:', w.get('message'))
            return 1
        print('no concrete input: the counter-model lives in heap/ghost state (solver model fragment below)')
        print(json.dumps(rec.get('solver_model'), indent=1)[:2000])
        return 1
    obs = run_concrete(c)
    print('concrete call on the real code:', c['module'], c['cls'], c['func'], 'args', c['args'], 'fields', c['fields'])
    print('observed  :', json.dumps(obs))
    ok = confirms(rec.get('obligation', ''), c, obs)
    print('reproduces the violation' if ok else 'does NOT reproduce')
    return 1 if ok else 0
