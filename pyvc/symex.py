"""Forward symbolic execution of real function ASTs against sidecar contracts (DESIGN 3.3, 3.4)."""
import ast, time, itertools, re as _re
import z3
from .z3v import *
from . import z3v
from .source import ClassInfo, FuncInfo, repo as _repo
from .spec import REG, Contract


class OutOfSubset(Exception):
    pass


class Val:
    __slots__ = ('t', 'ty', 'elems')

    def __init__(self, t, ty=None, elems=None):
        self.t = t
        self.ty = ty
        self.elems = elems      # Python-side list of element Vals for tuple/list displays (used by isinst_any)

    def __repr__(self):
        return 'Val(%s:%s)' % (self.t, self.ty)


BUILTIN_TYPES = {'list': 1, 'dict': 2, 'tuple': 3, 'set': 4, 'object': 5, 'function': 6, 'module': 7,
                 'type': 8, 'generator': 9, 'stream': 10, 'match': 11, 'pattern': 12, 'frozenset': 13,
                 'date': 14, 'datetime': 15, 'timedelta': 16, 'timezone': 17, 'complex': 18, 'slice': 19}

BUILTIN_EXC = {
    'BaseException': None, 'Exception': 'BaseException', 'LookupError': 'Exception', 'IndexError': 'LookupError',
    'KeyError': 'LookupError', 'ValueError': 'Exception', 'UnicodeError': 'ValueError',
    'UnicodeDecodeError': 'UnicodeError', 'UnicodeEncodeError': 'UnicodeError', 'TypeError': 'Exception',
    'AttributeError': 'Exception', 'AssertionError': 'Exception', 'OverflowError': 'ArithmeticError',
    'ArithmeticError': 'Exception', 'ZeroDivisionError': 'ArithmeticError', 'StopIteration': 'Exception',
    'ImportError': 'Exception', 'UnboundLocalError': 'NameError', 'NameError': 'Exception',
    'RuntimeError': 'Exception', 'RecursionError': 'RuntimeError', 'OSError': 'Exception',
    'binascii.Error': 'ValueError', 'ANY': 'Exception', 'GeneratorExit': 'BaseException',
}


class World:
    """Static tables shared by all executions of one run: class ids, static object ids."""

    def __init__(self, repo=None):
        self.repo = repo or _repo()
        self.class_ids = dict(BUILTIN_TYPES)
        n = 100
        for c in sorted(self.repo.all_classes(), key=lambda c: c.qual):
            self.class_ids[c.qual] = n
            n += 1
        self.static_ids = {}     # name -> negative int
        self.static_names = {}

    def class_id(self, name):
        if name not in self.class_ids:
            self.class_ids[name] = 1000 + len(self.class_ids)
        return self.class_ids[name]

    def static(self, name):
        if name not in self.static_ids:
            k = -(len(self.static_ids) + 1)
            self.static_ids[name] = k
            self.static_names[k] = name
        return self.static_ids[name]

    def subclass_ids(self, cls):
        return sorted(self.class_id(c.qual) for c in self.repo.subclasses(cls))

    def exc_is_sub(self, name, base):
        """is exception class `name` a subclass of `base` (both names: builtin or library qual)"""
        if name == base or base in ('BaseException',):
            return True
        if name in BUILTIN_EXC:
            p = BUILTIN_EXC[name]
            while p is not None:
                if p == base:
                    return True
                p = BUILTIN_EXC.get(p)
            return False
        try:
            c = self.repo.cls(name)
        except Exception:
            return False
        for k in c.mro:
            kn = k.qual if isinstance(k, ClassInfo) else k
            if kn == base:
                return True
            if not isinstance(k, ClassInfo) and kn in BUILTIN_EXC and self.exc_is_sub(kn, base):
                return True
        return False


class State:
    def __init__(self):
        self.env = {}
        self.heap = {}
        self.pc = []
        self.alloc = None
        self.unbound = {}    # name -> z3 Bool "name may be unbound" (only tracked when merging)

    def fork(self):
        s = State()
        s.env = dict(self.env)
        s.heap = dict(self.heap)
        s.pc = list(self.pc)
        s.alloc = self.alloc
        s.unbound = dict(self.unbound)
        return s

    def assume(self, c):
        if z3.is_true(c):
            return
        self.pc.append(c)


class Outcome:
    def __init__(self, kind, st, val=None, exc=None, site=None):
        self.kind = kind    # next | return | raise | break | continue
        self.st = st
        self.val = val
        self.exc = exc      # exception class name
        self.site = site


class Obligation:
    def __init__(self, name, pc, goal, kind='proof', detail=''):
        self.name = name
        self.pc = pc
        self.goal = goal
        self.kind = kind       # proof | cover
        self.detail = detail
        self.verdict = None    # proved | refuted | undecided
        self.backend = None
        self.seconds = 0.0
        self.model = None
        self.note = ''
        self.global_facts = []
        self.ex = None
        self.concrete = None


_fresh_counter = itertools.count()


def fresh_name(base):
    return '%s!%d' % (base, next(_fresh_counter))


def fresh_v(base):
    return z3.Const(fresh_name(base), V)


def substrings(lit):
    out = {''}
    for a in range(len(lit)):
        for b in range(a + 1, len(lit) + 1):
            out.add(lit[a:b])
    return sorted(out, key=lambda s: (len(s), s))


EXTERN_CONSTS = {'codecs.BOM_UTF16_LE': b'\xff\xfe', 'codecs.BOM_UTF16_BE': b'\xfe\xff', 'codecs.BOM_UTF8': b'\xef\xbb\xbf'}
MAXCHAR = 0x2FFFF


def squash_char(cp):
    """order-preserving embedding of code points into z3's character range (DESIGN 3.3, str row)"""
    if cp < 0x2FFFE:
        return cp
    if cp == 0x10FFFF:
        return 0x2FFFF
    return 0x2FFFE


def lit_str(s):
    return ''.join(chr(squash_char(ord(c))) for c in s)


class Exec:
    """Symbolic executor for one function under one contract."""

    def __init__(self, world, finfo, contract, ctx_cls=None, solver_timeout_ms=10000, inline_depth=0,
                 obligations=None, prefix=None):
        self.w = world
        self.repo = world.repo
        self.f = finfo
        self.c = contract
        self.ctx = ctx_cls
        self.timeout = solver_timeout_ms
        self.obls = obligations if obligations is not None else []
        self.prefix = prefix or finfo.qual
        self.counters = {}
        self.pending = []        # exceptional forks raised while evaluating the current statement
        self.inline_depth = inline_depth
        self.entry = None        # entry State (for old())
        self.spec_mode = 0
        self.result_val = None
        self.loop_ordinal = 0
        self.notes = []
        self.solver_seconds = 0.0
        self.ghost_env = {}
        self.global_facts = []      # path-independent facts about the entry heap (added to every obligation)
        self.global_ids = set()

    # ------------------------------------------------------------------ naming
    def site(self, kind, node=None):
        k = self.counters.get(kind, 0)
        self.counters[kind] = k + 1
        line = getattr(node, 'lineno', 0)
        return '%s#%d' % (kind, k), line

    # ------------------------------------------------------------------ heap access
    def harr(self, st, key, sort=None):
        if key not in st.heap:
            if sort is None:
                sort = {'$seq': ArrSeq, '$dhas': ArrHas, '$dval': ArrMap, '$dkeys': ArrSeq}.get(key, ArrV)
                if key.startswith('own:'):
                    sort = z3.ArraySort(z3.IntSort(), z3.BoolSort())
            st.heap[key] = z3.Const('H0_' + key.replace('$', 'S_').replace(':', '_'), sort)
        return st.heap[key]

    def field_type(self, recv_ty, field):
        """declared type of recv.field given the static type of recv (a class qual or ClassInfo)"""
        cls = recv_ty if isinstance(recv_ty, ClassInfo) else None
        if isinstance(recv_ty, str) and recv_ty in REG.fields:
            return REG.fields[recv_ty].get(field)
        if cls is None and isinstance(recv_ty, str) and recv_ty.startswith('obj:'):
            try:
                cls = self.repo.cls(recv_ty[4:])
            except Exception:
                return None
        if cls is None:
            return None
        for k in cls.mro:
            if isinstance(k, ClassInfo):
                t = REG.fields.get(k.qual, {}).get(field)
                if t is not None:
                    return t
        return None

    def type_pred(self, ty, v, st):
        """z3 Bool: value v has declared type ty"""
        if ty is None or ty == 'any':
            return z3.BoolVal(True)
        if ty.startswith('opt:'):
            return z3.Or(is_none(v), self.type_pred(ty[4:], v, st))
        if '|' in ty:
            return z3.Or(*[self.type_pred(t, v, st) for t in ty.split('|')])
        if ty == 'int':
            return is_i(v)
        if ty == 'bool':
            return is_b(v)
        if ty == 'str':
            return is_s(v)
        if ty == 'char':
            return z3.And(is_s(v), z3.Length(sv(v)) == 1)
        if ty == 'bytes':
            return is_y(v)
        if ty == 'float':
            return is_fl(v)
        if ty == 'none':
            return is_none(v)
        if ty == 'func':
            return z3.And(is_r(v), rv(v) < 0)
        if ty == 'symclass':
            return is_r(v)
        if ty == 'callable':
            return z3.BoolVal(True)
        if ty in BUILTIN_TYPES:
            return z3.And(is_r(v), typ(rv(v)) == BUILTIN_TYPES[ty])
        if ty.startswith('obj:'):
            q = ty[4:]
            try:
                ids = self.w.subclass_ids(self.repo.cls(q))
            except Exception:
                ids = [self.w.class_id(q)]
            return z3.And(is_r(v), z3.Or(*[typ(rv(v)) == i for i in ids]))
        raise OutOfSubset('unknown type name %r' % ty)

    def static_ty(self, ty):
        """the static type hint kept on a Val for a declared type name"""
        if ty is None or ty == 'any' or ty.startswith('opt:') or '|' in ty:
            return None
        return ty

    def declaring_classes(self, cls, field):
        """library subclasses of cls (ClassInfo) whose declared fields (REG.fields) include `field`"""
        out = []
        for c in self.repo.subclasses(cls):
            for k in c.mro:
                if isinstance(k, ClassInfo) and field in REG.fields.get(k.qual, {}):
                    out.append((c, REG.fields[k.qual][field]))
                    break
        return out

    def get_field(self, st, recv, field, node=None):
        arr = self.harr(st, 'f:' + field)
        t = z3.Select(arr, rv(recv.t))
        if (not self.spec_mode or z3.is_const(recv.t)) and self.entry is not None:
            # (inside specifications only for fields of the parameters themselves: facts about quantified terms swamp the instantiation stage)
            # entry-heap well-formedness: a reference stored in the heap when the function was entered points to an object
            # that existed then (stated for the initial field array at this receiver)
            a0 = self.entry.heap.get('f:' + field)
            if a0 is None:
                a0 = self.harr(self.entry, 'f:' + field)
            t0 = z3.Select(a0, rv(recv.t))
            fact = z3.Implies(is_r(t0), rv(t0) < self.entry_alloc())
            if fact.get_id() not in self.global_ids:
                # a fact about the entry heap only: valid on every path, kept once per function
                self.global_ids.add(fact.get_id())
                self.global_facts.append(fact)
        fty = self.field_type(recv.ty, field) if recv.ty else None
        cls = self.recv_class(recv) if recv.ty else None
        if fty is None and cls is not None and REG.fields.get(cls.qual) is not None or (fty is None and cls is not None and self.declaring_classes(cls, field)):
            # the static class does not declare the field: present only on some subclasses (AttributeError otherwise)
            decl = self.declaring_classes(cls, field)
            if decl:
                ids = sorted({self.w.class_id(c.qual) for c, _ in decl})
                has = z3.Or(*[typ(rv(recv.t)) == i for i in ids])
                if not self.spec_mode:
                    self.raise_if(st, z3.Not(has), 'AttributeError', 'safe/attr-' + field, node)
                bytype = {}
                for c, ty in decl:
                    bytype.setdefault(ty, []).append(self.w.class_id(c.qual))
                for ty, cids in bytype.items():
                    st.assume(z3.Implies(z3.Or(*[typ(rv(recv.t)) == i for i in cids]), self.type_pred(ty, t, st)))
                if len(bytype) == 1:
                    fty = list(bytype)[0]
                    self.assume_allocated(st, t)
                    return Val(t, self.static_ty(fty))
        if fty is not None and recv.elems != 'cast':
            st.assume(self.type_pred(fty, t, st))
        if fty is None and cls is None and recv.ty is None and not self.spec_mode:
            # untyped receiver: whatever library class the object has, its declared field type holds (class invariant assumption)
            bytype = {}
            for cq, fl in REG.fields.items():
                if field in fl and '.' in cq:
                    try:
                        ci = self.repo.cls(cq)
                    except Exception:
                        continue
                    for sub in self.repo.subclasses(ci):
                        bytype.setdefault(fl[field], set()).add(self.w.class_id(sub.qual))
            for ty_, ids in bytype.items():
                if ty_ != 'any':
                    st.assume(z3.Implies(z3.And(is_r(recv.t), z3.Or(*[typ(rv(recv.t)) == i for i in sorted(ids)])), self.type_pred(ty_, t, st)))
        self.assume_allocated(st, t)
        return Val(t, self.static_ty(fty))

    def assume_allocated(self, st, t):
        if st.alloc is not None and not self.spec_mode:
            st.assume(z3.Implies(is_r(t), rv(t) < st.alloc))

    def cpos(self, name):
        return z3.Function('cpos_' + name, z3.IntSort(), z3.IntSort(), z3.IntSort())

    def symclass_owner(self, st, cref, name):
        """the class whose own attribute `name` an attribute lookup on class `cref` finds (first owner along the chain)"""
        own = self.harr(st, 'own:' + name)
        pos = self.cpos(name)
        # the owner is a function of (ownership array, class): the same lookup in the same ownership state denotes the same class
        memo = self.__dict__.setdefault('_owner_memo', {})
        key = (own.get_id(), cref.get_id(), name)
        if key in memo:
            o = memo[key][0]
        else:
            o = z3.Int(fresh_name('owner'))
            memo[key] = (o, own, cref)       # keep the terms alive: ids are only unique among live terms
        d = z3.Int(fresh_name('d'))
        st.assume(z3.And(z3.Select(own, o), pos(cref, o) >= 0))
        st.assume(z3.ForAll([d], z3.Implies(z3.And(z3.Select(own, d), pos(cref, d) >= 0), pos(cref, o) <= pos(cref, d))))
        return o

    def symclass_get(self, st, recv, name):
        o = self.symclass_owner(st, rv(recv.t), name)
        t = z3.Select(self.harr(st, 'f:' + name), o)
        if self.entry is not None:
            # entry-heap well-formedness (as in get_field): a class attribute that held a reference at entry points to an object that existed then
            a0 = self.entry.heap.get('f:' + name)
            if a0 is None:
                a0 = self.harr(self.entry, 'f:' + name)
            t0 = z3.Select(a0, o)
            fact = z3.Implies(is_r(t0), rv(t0) < self.entry_alloc())
            if fact.get_id() not in self.global_ids:
                self.global_ids.add(fact.get_id())
                self.global_facts.append(fact)
        fty = REG.fields.get('symclass', {}).get(name)
        if fty is not None and recv.elems != 'cast':
            st.assume(self.type_pred(fty, t, st))
        if fty is None and cls is None and recv.ty is None and not self.spec_mode:
            # untyped receiver: whatever library class the object has, its declared field type holds (class invariant assumption)
            bytype = {}
            for cq, fl in REG.fields.items():
                if field in fl and '.' in cq:
                    try:
                        ci = self.repo.cls(cq)
                    except Exception:
                        continue
                    for sub in self.repo.subclasses(ci):
                        bytype.setdefault(fl[field], set()).add(self.w.class_id(sub.qual))
            for ty_, ids in bytype.items():
                if ty_ != 'any':
                    st.assume(z3.Implies(z3.And(is_r(recv.t), z3.Or(*[typ(rv(recv.t)) == i for i in sorted(ids)])), self.type_pred(ty_, t, st)))
        self.assume_allocated(st, t)
        return Val(t, self.static_ty(fty))

    def set_field(self, st, recv, field, val, node=None):
        if recv.ty == 'symclass':
            st.heap['own:' + field] = z3.Store(self.harr(st, 'own:' + field), rv(recv.t), z3.BoolVal(True))
            st.heap['f:' + field] = z3.Store(self.harr(st, 'f:' + field), rv(recv.t), val.t)
            return
        fty = self.field_type(recv.ty, field) if recv.ty else None
        if fty is not None and not self.spec_mode:
            name, line = self.site('field-type/' + field, node)
            self.prove(name, st.pc, self.type_pred(fty, val.t, st), detail='line %d: %s must stay %s' % (line, field, fty))
        arr = self.harr(st, 'f:' + field)
        st.heap['f:' + field] = z3.Store(arr, rv(recv.t), val.t)

    def seq_of(self, st, v):
        """element sequence of a list or tuple value (tuples are immutable: `tup`, lists live in the heap array $seq)"""
        t = v.t if isinstance(v, Val) else v
        ty = v.ty if isinstance(v, Val) else None
        if ty == 'seq':
            return t
        if ty == 'tuple':
            return tup(rv(t))
        if ty == 'list':
            return z3.Select(self.harr(st, '$seq'), rv(t))
        return z3.If(typ(rv(t)) == 3, tup(rv(t)), z3.Select(self.harr(st, '$seq'), rv(t)))

    def set_seq(self, st, v, s):
        st.heap['$seq'] = z3.Store(self.harr(st, '$seq'), rv(v.t), s)

    def new_obj(self, st, clsname):
        ref = st.alloc
        st.alloc = st.alloc + 1
        st.assume(typ(ref) == self.w.class_id(clsname))
        return mk_r(ref)

    def new_list(self, st, elems_seq, kind='list'):
        r = self.new_obj(st, kind)
        if kind == 'tuple':
            st.assume(tup(rv(r)) == elems_seq)
        else:
            st.heap['$seq'] = z3.Store(self.harr(st, '$seq'), rv(r), elems_seq)
        return Val(r, kind)

    def new_dict(self, st):
        r = self.new_obj(st, 'dict')
        st.heap['$dhas'] = z3.Store(self.harr(st, '$dhas'), rv(r), z3.K(V, z3.BoolVal(False)))
        st.heap['$dkeys'] = z3.Store(self.harr(st, '$dkeys'), rv(r), z3.Empty(SeqV))
        return Val(r, 'dict')

    def seq_lit(self, vals):
        if not vals:
            return z3.Empty(SeqV)
        us = [z3.Unit(v.t) for v in vals]
        return us[0] if len(us) == 1 else z3.Concat(*us)

    def truthy(self, st, v):
        t = v.t
        if v.ty in ('list', 'tuple'):
            return z3.Length(self.seq_of(st, v)) > 0
        if v.ty == 'dict':
            return z3.Length(z3.Select(self.harr(st, '$dkeys'), rv(t))) > 0
        if v.ty == 'int':
            return iv(t) != 0
        if v.ty == 'bool':
            return bv(t)
        if v.ty in ('str', 'char'):
            return z3.Length(sv(t)) > 0
        if v.ty == 'bytes':
            return z3.Length(yv(t)) > 0
        if v.ty == 'none':
            return z3.BoolVal(False)
        if v.ty and (v.ty.startswith('obj:') or v.ty == 'func'):
            return z3.BoolVal(True)

        def ref_truth(x):
            return z3.If(z3.Or(typ(V.rv(x)) == 1, typ(V.rv(x)) == 3),
                         z3.Length(self.seq_of(st, x)) > 0,
                         z3.If(typ(V.rv(x)) == 2, z3.Length(z3.Select(self.harr(st, '$dkeys'), V.rv(x))) > 0, True))
        return truthy(t, ref_truth)

    # ------------------------------------------------------------------ obligations
    def prove(self, name, pc, goal, detail='', kind='proof'):
        ob = Obligation(self.prefix + '/' + name, list(pc), goal, kind=kind, detail=detail)
        ob.global_facts = self.global_facts       # shared list: complete by the time the obligation is discharged
        ob.ex = self
        self.obls.append(ob)
        return ob

    def quick_unsat(self, pc, extra, ms=300):
        s = z3.Solver()
        s.set('timeout', ms)
        s.add(*pc)
        s.add(extra)
        t = time.time()
        r = guarded_check(s, ms)
        self.solver_seconds += time.time() - t
        return r == z3.unsat

    def raise_if(self, st, cond, exc, kind, node):
        """the current operation raises `exc` when cond holds; continue under not cond"""
        if self.spec_mode:
            return
        if z3.is_false(cond):
            return
        cond = z3.simplify(cond)
        if z3.is_false(cond):
            return
        name, line = self.site(kind, node)
        if self.quick_unsat(st.pc, cond, ms=2000):
            # decided on the spot: the failing branch is infeasible (counted as a discharged obligation)
            ob = self.prove('%s/%s' % (exc, name), st.pc, z3.Not(cond), detail='line %d: %s cannot be raised here' % (line, exc))
            ob.verdict, ob.backend = 'proved', 'z3'
            return
        est = st.fork()
        est.assume(cond)
        self.pending.append(Outcome('raise', est, exc=exc, site='%s@%d' % (name, line)))
        st.assume(z3.Not(cond))

    def need_type(self, st, v, pred, what, node):
        """operand type obligation: otherwise CPython raises TypeError"""
        c = pred(v.t)
        if z3.is_true(c):
            return
        self.raise_if(st, z3.Not(c), 'TypeError', 'safe/type-' + what, node)

    # ------------------------------------------------------------------ expressions
    def ev(self, e, st):
        m = getattr(self, 'e_' + type(e).__name__, None)
        if m is None:
            raise OutOfSubset('expression %s at line %s' % (type(e).__name__, getattr(e, 'lineno', '?')))
        return m(e, st)

    def e_Constant(self, e, st):
        v = e.value
        if v is None:
            return Val(NONE, 'none')
        if isinstance(v, bool):
            return Val(mk_b(v), 'bool')
        if isinstance(v, int):
            return Val(mk_i(v), 'int')
        if isinstance(v, str):
            return Val(mk_s(lit_str(v)), 'char' if len(v) == 1 else 'str')
        if isinstance(v, bytes):
            return Val(mk_y(v), 'bytes')
        if isinstance(v, float):
            return Val(V.fl(z3.IntVal(self.w.static('float:%r' % v))), 'float')
        raise OutOfSubset('constant %r' % (v,))

    def static_val(self, name, ty='func'):
        return Val(mk_r(self.w.static(name)), ty)

    def e_Name(self, e, st):
        n = e.id
        if n in st.env:
            v = st.env[n]
            ub = st.unbound.get(n)
            if ub is not None and not self.spec_mode:
                self.raise_if(st, ub, 'UnboundLocalError', 'safe/bound-' + n, e)
                st.unbound.pop(n, None)
            return v
        if self.spec_mode and n in self.ghost_env:
            return self.ghost_env[n]
        if self.spec_mode and n == 'result':
            if self.result_val is None:
                raise OutOfSubset('result used outside ensures')
            return self.result_val
        if n in ('True', 'False', 'None'):
            return self.e_Constant(ast.Constant({'True': True, 'False': False, 'None': None}[n]), st)
        g = self.repo.lookup(self.f.module.name, n)
        if isinstance(g, ClassInfo):
            return Val(mk_r(self.w.static('class:' + g.qual)), 'type')
        if isinstance(g, FuncInfo):
            return Val(mk_r(self.w.static('func:' + g.qual)), 'func')
        if isinstance(g, tuple) and g[0] == 'module':
            return Val(mk_r(self.w.static('module:' + g[1])), 'module')
        if isinstance(g, tuple) and g[0] == 'const':
            try:
                lit = ast.literal_eval(g[1])
                return self.e_Constant(ast.Constant(lit), st)
            except Exception:
                return Val(mk_r(self.w.static('global:%s.%s' % (g[2].name, n))), None)
        if isinstance(g, tuple) and g[0] == 'extern':
            return Val(mk_r(self.w.static('extern:' + g[1])), None)
        import builtins
        if hasattr(builtins, n):
            return Val(mk_r(self.w.static('builtin:' + n)), 'type' if isinstance(getattr(builtins, n), type) else 'func')
        if n in self.f.params or self._is_local(n):
            # local that is not bound on this path
            if self.spec_mode:
                raise OutOfSubset('spec refers to unbound local %s' % n)
            name, line = self.site('safe/bound-' + n, e)
            est = st.fork()
            self.pending.append(Outcome('raise', est, exc='UnboundLocalError', site='%s@%d' % (name, line)))
            st.assume(z3.BoolVal(False))
            return Val(fresh_v(n), None)
        raise OutOfSubset('unknown name %s (line %s)' % (n, getattr(e, 'lineno', '?')))

    def _is_local(self, n):
        if not hasattr(self, '_locals'):
            s = set()
            for x in ast.walk(self.f.node):
                if isinstance(x, ast.Name) and isinstance(x.ctx, ast.Store):
                    s.add(x.id)
            self._locals = s
        return n in self._locals

    def recv_class(self, v):
        """ClassInfo for a Val with static object type, else None"""
        if isinstance(v.ty, ClassInfo):
            return v.ty
        if isinstance(v.ty, str) and v.ty.startswith('obj:'):
            try:
                return self.repo.cls(v.ty[4:])
            except Exception:
                return None
        return None

    def e_Attribute(self, e, st):
        # module attribute / class attribute / instance field
        if isinstance(e.value, ast.Name) and e.value.id not in st.env:
            g = self.repo.lookup(self.f.module.name, e.value.id)
            if isinstance(g, tuple) and g[0] == 'module':
                q = '%s.%s' % (g[1], e.attr)
                if q in EXTERN_CONSTS:
                    return self.e_Constant(ast.Constant(EXTERN_CONSTS[q]), st)
                return Val(mk_r(self.w.static('extern:' + q)), None)
            if isinstance(g, ClassInfo):
                return self.class_attr(g, e.attr, st, e)
        recv = self.ev(e.value, st)
        if e.attr == '__class__' and self.recv_class(recv) is not None:
            return Val(mk_r(self.w.static('dynclass:' + self.recv_class(recv).qual)), ('dynclass', self.recv_class(recv)))
        if isinstance(recv.ty, tuple) and recv.ty[0] == 'dynclass':
            return self.class_attr(recv.ty[1], e.attr, st, e)
        if recv.ty == 'symclass':
            if e.attr == '__dict__':
                return Val(recv.t, ('classdict',))
            return self.symclass_get(st, recv, e.attr)
        if recv.ty == 'module':
            nm = self.w.static_names.get(self._const_int(rv(recv.t)))
            if nm:
                return Val(mk_r(self.w.static('extern:%s.%s' % (nm.split(':', 1)[1], e.attr))), None)
        cls = self.recv_class(recv)
        if cls is not None:
            fa = self.repo.find_attr(cls, e.attr)
            declared = self.field_type(recv.ty, e.attr)
            if fa is not None and declared is None:
                k, what = fa
                if isinstance(what, FuncInfo):
                    return Val(mk_r(self.w.static('method:' + e.attr)), 'func')
                # class-level attribute read through an instance (not shadowed: no declared instance field)
                return self.class_attr(cls, e.attr, st, e)
        if recv.ty == 'type':
            nm = self.w.static_names.get(self._const_int(rv(recv.t)), '')
            if nm.startswith('class:'):
                return self.class_attr(self.repo.cls(nm[6:]), e.attr, st, e)
        if not self.spec_mode:
            self.need_type(st, recv, is_r, 'attr-' + e.attr, e)
        return self.get_field(st, recv, e.attr, e)

    def _const_int(self, t):
        t = z3.simplify(t)
        if z3.is_int_value(t):
            return t.as_long()
        return None

    def class_attr(self, cls, name, st, node):
        fa = self.repo.find_attr(cls, name)
        if fa is None:
            raise OutOfSubset('class attribute %s.%s' % (cls.qual, name))
        k, what = fa
        if isinstance(what, FuncInfo):
            return Val(mk_r(self.w.static('func:' + what.qual)), 'func')
        try:
            lit = ast.literal_eval(what)
            is_lit = True
        except Exception:
            lit, is_lit = None, False
        if not is_lit and isinstance(what, (ast.BinOp, ast.UnaryOp)):
            # arithmetic over other numeric class attributes (e.g. nan_value = -inf_value/inf_value): only its TYPE is used
            try:
                env = {}
                for n in ast.walk(what):
                    if isinstance(n, ast.Name):
                        fa2 = self.repo.find_attr(cls, n.id)
                        env[n.id] = ast.literal_eval(fa2[1])
                v = eval(compile(ast.Expression(what), '<classattr>', 'eval'), {'__builtins__': {}}, env)
                if isinstance(v, float):
                    return Val(V.fl(z3.IntVal(self.w.static('float:%s.%s' % (k.qual, name)))), 'float')
            except Exception:
                pass
        if is_lit and isinstance(lit, (str, int, bool, type(None), bytes, float)):
            return self.e_Constant(ast.Constant(lit), st)
        key = 'classattr:%s.%s' % (k.qual, name)
        if isinstance(what, ast.Call) and ast.unparse(what.func) == 're.compile' and what.args and isinstance(what.args[0], ast.Constant):
            # a compiled regular expression: static pattern object, its source text is kept for the assumed contracts of re
            self.w.patterns = getattr(self.w, 'patterns', {})
            self.w.patterns[self.w.static(key)] = what.args[0].value
            return Val(mk_r(self.w.static(key)), 'pattern')
        # class-level container: a static heap object whose contents are fixed by the class body
        ref = Val(mk_r(self.w.static(key)), 'dict' if isinstance(lit, dict) else ('list' if isinstance(lit, list) else None))
        self.assume_static_container(st, ref, lit, key)
        return ref

    def assume_static_container(self, st, ref, lit, key):
        if not hasattr(st, 'static_done'):
            st.static_done = set()
        mark = 'static:' + key
        if mark in st.env:
            return
        st.env[mark] = ref
        mutable_registry = key.rsplit('.', 1)[-1] in ('yaml_constructors', 'yaml_multi_constructors', 'yaml_representers', 'yaml_multi_representers',
                                                      'yaml_implicit_resolvers', 'yaml_path_resolvers')
        if mutable_registry:
            # registries are filled by add_* after the class body: contents unknown, only "a dict"
            st.assume(typ(rv(ref.t)) == 2)
            return
        if isinstance(lit, dict) and all(isinstance(k, (str, int)) and isinstance(v, (str, int, bool, type(None))) for k, v in lit.items()):
            has = z3.Select(self.harr(st, '$dhas'), rv(ref.t))
            val = z3.Select(self.harr(st, '$dval'), rv(ref.t))
            x = z3.Const(fresh_name('k'), V)
            keys = [self.e_Constant(ast.Constant(k), st).t for k in lit]
            st.assume(z3.ForAll([x], z3.Select(has, x) == z3.Or(*[x == k for k in keys])) if keys else z3.BoolVal(True))
            for k, v in lit.items():
                st.assume(z3.Select(val, self.e_Constant(ast.Constant(k), st).t) == self.e_Constant(ast.Constant(v), st).t)
            st.assume(typ(rv(ref.t)) == 2)
            st.assume(z3.Select(self.harr(st, '$dkeys'), rv(ref.t)) == self.seq_lit([Val(k) for k in keys]))

    # ---- operators
    def e_BoolOp(self, e, st):
        is_and = isinstance(e.op, ast.And)
        first = self.ev(e.values[0], st)
        return self._boolop_rest(first, e.values[1:], is_and, st)

    def _boolop_rest(self, left, rest, is_and, st):
        if not rest:
            return left
        c = self.truthy(st, left)
        go = c if is_and else z3.Not(c)
        if self.spec_mode:
            r = self._boolop_rest(self.ev(rest[0], st), rest[1:], is_and, st)
            if self._isb(left) and self._isb(r):
                lb, rb = bv(left.t), bv(r.t)
                return Val(mk_b(z3.And(lb, rb) if is_and else z3.Or(lb, rb)), 'bool')
            return Val(z3.If(go, r.t, left.t), r.ty if r.ty == left.ty else None)
        sub = st.fork()
        sub.assume(go)
        n_pending = len(self.pending)
        r = self.ev(rest[0], sub)
        r = self._boolop_rest(r, rest[1:], is_and, sub)
        self.merge_into(st, go, sub)
        if self._isb(left) and self._isb(r):
            lb, rb = bv(left.t), bv(r.t)
            return Val(mk_b(z3.And(lb, rb) if is_and else z3.Or(lb, rb)), 'bool')
        return Val(z3.If(go, r.t, left.t), r.ty if r.ty == left.ty else None)

    def _isb(self, v):
        return v.ty == 'bool' or z3v._is_app(v.t, V.b)

    def merge_into(self, st, cond, sub, other=None):
        """st := if cond then sub else (other or st).  sub/other were forked from st."""
        base_len = len(st.pc)
        o = other if other is not None else st
        new_pc = list(st.pc[:base_len])
        for f in sub.pc[base_len:]:
            new_pc.append(z3.Implies(cond, f))
        if other is not None:
            for f in other.pc[base_len:]:
                new_pc.append(z3.Implies(z3.Not(cond), f))
        keys = set(sub.heap) | set(o.heap)
        heap = {}
        for k in keys:
            a = sub.heap.get(k)
            b = o.heap.get(k)
            if a is None:
                a = self.harr(sub, k)
            if b is None:
                b = self.harr(o, k)
            heap[k] = a if a.eq(b) else z3.If(cond, a, b)
        env = {}
        unbound = {}
        for k in set(sub.env) | set(o.env):
            a = sub.env.get(k)
            b = o.env.get(k)
            if a is None or b is None:
                # bound on one side only
                present = a if a is not None else b
                env[k] = present
                if not k.startswith('static:'):
                    ub = z3.Not(cond) if a is not None else cond
                    unbound[k] = ub
                continue
            if a.t.eq(b.t):
                env[k] = a if a.ty == b.ty else Val(a.t, None)
            else:
                env[k] = Val(z3.If(cond, a.t, b.t), a.ty if a.ty == b.ty else None)
            ua, ub_ = sub.unbound.get(k), o.unbound.get(k)
            if ua is not None or ub_ is not None:
                unbound[k] = z3.If(cond, ua if ua is not None else z3.BoolVal(False), ub_ if ub_ is not None else z3.BoolVal(False))
        alloc = sub.alloc if (sub.alloc is None or o.alloc is None or sub.alloc.eq(o.alloc)) else z3.If(cond, sub.alloc, o.alloc)
        st.pc, st.heap, st.env, st.alloc, st.unbound = new_pc, heap, env, alloc, unbound

    def e_UnaryOp(self, e, st):
        v = self.ev(e.operand, st)
        if isinstance(e.op, ast.Not):
            return Val(mk_b(z3.Not(self.truthy(st, v))), 'bool')
        if isinstance(e.op, ast.USub):
            self.need_type(st, v, is_i, 'neg', e)
            return Val(mk_i(-iv(v.t)), 'int')
        if isinstance(e.op, ast.UAdd):
            self.need_type(st, v, is_i, 'pos', e)
            return Val(mk_i(iv(v.t)), 'int')
        raise OutOfSubset('unary op')

    def e_IfExp(self, e, st):
        c = self.truthy(st, self.ev(e.test, st))
        a_st = st.fork(); a_st.assume(c)
        b_st = st.fork(); b_st.assume(z3.Not(c))
        a = self.ev(e.body, a_st)
        b = self.ev(e.orelse, b_st)
        self.merge_into(st, c, a_st, b_st)
        return Val(z3.If(c, a.t, b.t), a.ty if a.ty == b.ty else None)

    def is_strlike(self, v):
        return v.ty in ('str', 'char')

    def e_BinOp(self, e, st):
        a = self.ev(e.left, st)
        b = self.ev(e.right, st)
        return self.binop(e.op, a, b, st, e)

    def binop(self, op, a, b, st, e):
        if isinstance(op, ast.Add) and (a.ty == 'seq' or b.ty == 'seq'):
            return Val(z3.Concat(self.seq_of(st, a), self.seq_of(st, b)), 'seq')
        if isinstance(op, ast.Mod) and (self.is_strlike(a) or (a.ty is None and z3v._is_app(a.t, V.s))):
            return self.str_format(a, b, st, e)
        if isinstance(op, ast.Add):
            if self.is_strlike(a) or self.is_strlike(b):
                self.need_type(st, a, is_s, 'concat', e)
                self.need_type(st, b, is_s, 'concat', e)
                return Val(mk_s(z3.Concat(sv(a.t), sv(b.t))), 'str')
            if a.ty == 'bytes' or b.ty == 'bytes':
                self.need_type(st, a, is_y, 'concat', e)
                self.need_type(st, b, is_y, 'concat', e)
                return Val(mk_y(z3.Concat(yv(a.t), yv(b.t))), 'bytes')
            if a.ty in ('list', 'tuple') or b.ty in ('list', 'tuple'):
                kind = a.ty if a.ty in ('list', 'tuple') else b.ty
                pa = self.type_pred(kind, a.t, st)
                pb = self.type_pred(kind, b.t, st)
                self.raise_if(st, z3.Not(z3.And(pa, pb)), 'TypeError', 'safe/type-concat', e)
                return self.new_list(st, z3.Concat(self.seq_of(st, a), self.seq_of(st, b)), kind)
        if isinstance(op, ast.Add) and (a.ty is None or b.ty is None) and a.ty in (None, 'str', 'char', 'bytes', 'int') and b.ty in (None, 'str', 'char', 'bytes', 'int'):
            # dynamic '+': str + str, bytes + bytes or int + int, anything else is a TypeError
            both_s = z3.And(is_s(a.t), is_s(b.t))
            both_y = z3.And(is_y(a.t), is_y(b.t))
            both_i = z3.And(is_i(a.t), is_i(b.t))
            if not z3.is_true(z3.simplify(both_i)):
                if not self.spec_mode:
                    self.raise_if(st, z3.Not(z3.Or(both_s, both_y, both_i)), 'TypeError', 'safe/type-add', e)
                return Val(z3.If(both_s, mk_s(z3.Concat(sv(a.t), sv(b.t))), z3.If(both_y, mk_y(z3.Concat(yv(a.t), yv(b.t))), mk_i(iv(a.t) + iv(b.t)))), None)
        if isinstance(op, (ast.Add, ast.Sub, ast.Mult, ast.Div)) and (a.ty == 'float' or b.ty == 'float'):
            # float arithmetic: operands must be numbers, the value is opaque
            num = lambda v: z3.Or(is_i(v.t), is_fl(v.t), is_b(v.t))
            ok = z3.And(num(a), num(b))
            if not z3.is_true(z3.simplify(ok)):
                self.raise_if(st, z3.Not(ok), 'TypeError', 'safe/type-float-arith', e)
            fop = z3.Function('float_' + type(op).__name__.lower(), V, V, z3.IntSort())
            return Val(V.fl(fop(a.t, b.t)), 'float')
        if isinstance(op, (ast.Add, ast.Sub, ast.Mult, ast.FloorDiv, ast.Mod)):
            if isinstance(op, ast.Mult) and (self.is_strlike(a) or self.is_strlike(b)):
                s_, n_ = (a, b) if self.is_strlike(a) else (b, a)
                self.need_type(st, n_, is_i, 'repeat', e)
                rep = z3.Function('str_repeat', z3.StringSort(), z3.IntSort(), z3.StringSort())
                r = rep(sv(s_.t), iv(n_.t))
                st.assume(z3.Length(r) == z3.Length(sv(s_.t)) * z3.If(iv(n_.t) > 0, iv(n_.t), 0))
                return Val(mk_s(r), 'str')
            if (a.ty is None or b.ty is None) and isinstance(op, (ast.Add, ast.Sub, ast.Mult)) and not self.spec_mode:
                # dynamic numeric operands: int op int is exact, anything involving a float is an opaque float
                num = lambda v: z3.Or(is_i(v.t), is_fl(v.t))
                both_i = z3.And(is_i(a.t), is_i(b.t))
                if not z3.is_true(z3.simplify(both_i)):
                    self.raise_if(st, z3.Not(z3.And(num(a), num(b))), 'TypeError', 'safe/type-arith', e)
                    x, y = iv(a.t), iv(b.t)
                    ri = x + y if isinstance(op, ast.Add) else (x - y if isinstance(op, ast.Sub) else x * y)
                    fop = z3.Function('float_' + type(op).__name__.lower(), V, V, z3.IntSort())
                    return Val(z3.If(both_i, mk_i(ri), V.fl(fop(a.t, b.t))), None)
            if a.ty != 'int' or b.ty != 'int':
                both = z3.And(is_i(a.t), is_i(b.t))
                if not z3.is_true(z3.simplify(both)):
                    self.raise_if(st, z3.Not(both), 'TypeError', 'safe/type-arith', e)
            x, y = iv(a.t), iv(b.t)
            if isinstance(op, ast.Add):
                r = x + y
            elif isinstance(op, ast.Sub):
                r = x - y
            elif isinstance(op, ast.Mult):
                r = x * y
            else:
                self.raise_if(st, y == 0, 'ZeroDivisionError', 'safe/div', e)
                # Python floor semantics
                q = z3.If(y > 0, x / y, -((-x) / (-y))) if False else None
                fd = z3.Function('py_floordiv', z3.IntSort(), z3.IntSort(), z3.IntSort())
                md = z3.Function('py_mod', z3.IntSort(), z3.IntSort(), z3.IntSort())
                st.assume(z3.Implies(y > 0, z3.And(fd(x, y) == x / y, md(x, y) == x % y)))
                r = fd(x, y) if isinstance(op, ast.FloorDiv) else md(x, y)
            return Val(mk_i(r), 'int')
        raise OutOfSubset('binary op %s' % type(op).__name__)

    def str_format(self, a, b, st, e):
        """'%..' % args: an uninterpreted total function of its arguments (DESIGN 3.3)"""
        args = [b]
        if b.ty in ('tuple', 'seq'):
            args = None
        # formats made of literal text and %s only, applied to strings: plain concatenation
        fmt = z3.simplify(sv(a.t))
        elems = b.elems if b.ty in ('tuple', 'seq') else [b]
        if z3.is_string_value(fmt) and elems is not None:
            text = fmt.as_string()
            pieces = _re.split(r'(%s|%%)', text)
            n_s = sum(1 for p_ in pieces if p_ == '%s')
            if '%' not in ''.join(p_ for p_ in pieces if p_ not in ('%s', '%%')) and n_s == len(elems) and all(x.ty in ('str', 'char', None) for x in elems):
                out, k = [], 0
                pystr = z3.Function('py_str', V, z3.StringSort())
                for p_ in pieces:
                    if p_ == '%s':
                        x = elems[k]
                        out.append(sv(x.t) if x.ty in ('str', 'char') else z3.If(is_s(x.t), sv(x.t), pystr(x.t))); k += 1
                    elif p_ == '%%':
                        out.append(z3.StringVal('%'))
                    elif p_:
                        out.append(z3.StringVal(p_))
                return Val(mk_s(out[0] if len(out) == 1 else z3.Concat(*out)) if out else mk_s(''), 'str')
        f = z3.Function('str_format', z3.StringSort(), V, z3.StringSort())
        if args is None:
            # tuple argument: hash its contents by position through the sequence
            g = z3.Function('str_format_seq', z3.StringSort(), SeqV, z3.StringSort())
            return Val(mk_s(g(sv(a.t), self.seq_of(st, b))), 'str')
        return Val(mk_s(f(sv(a.t), b.t)), 'str')

    def e_Compare(self, e, st):
        left = self.ev(e.left, st)
        conj = []
        for op, rn in zip(e.ops, e.comparators):
            if conj and not self.spec_mode:
                # short circuit of chained comparisons: later operands evaluated only if earlier hold
                sub = st.fork()
                sub.assume(z3.And(*conj))
                right = self.ev(rn, sub)
                c = self.compare(op, left, right, sub, e, rn)
                self.merge_into(st, z3.And(*conj), sub)
            else:
                right = self.ev(rn, st)
                c = self.compare(op, left, right, st, e, rn)
            conj.append(c)
            left = right
        return Val(mk_b(conj[0] if len(conj) == 1 else z3.And(*conj)), 'bool')

    def py_eq(self, a, b, st):
        if a.ty == 'seq' or b.ty == 'seq':
            return self.seq_of(st, a) == self.seq_of(st, b)
        if a.ty in ('list', 'tuple') and b.ty == a.ty:
            return z3.Or(a.t == b.t, self.seq_of(st, a) == self.seq_of(st, b))
        if self.spec_mode and (a.ty in ('list', 'tuple') or b.ty in ('list', 'tuple')):
            return self.seq_of(st, a) == self.seq_of(st, b)
        return a.t == b.t

    def compare(self, op, a, b, st, e, rnode):
        if isinstance(op, ast.Is):
            return a.t == b.t
        if isinstance(op, ast.IsNot):
            return a.t != b.t
        if isinstance(op, ast.Eq):
            return self.py_eq(a, b, st)
        if isinstance(op, ast.NotEq):
            return z3.Not(self.py_eq(a, b, st))
        if isinstance(op, (ast.In, ast.NotIn)):
            c = self.contains(a, b, st, e, rnode)
            return c if isinstance(op, ast.In) else z3.Not(c)
        # ordering
        if (self.is_strlike(a) and self.is_strlike(b)):
            x, y = sv(a.t), sv(b.t)
            if a.ty == 'char' and b.ty == 'char' or True:
                return self.str_order(op, x, y, a, b, st)
        if a.ty == 'int' and b.ty == 'int':
            x, y = iv(a.t), iv(b.t)
        else:
            both_i = z3.And(is_i(a.t), is_i(b.t))
            both_s = z3.And(is_s(a.t), is_s(b.t))
            if self.is_strlike(a) or self.is_strlike(b):
                self.raise_if(st, z3.Not(both_s), 'TypeError', 'safe/type-order', e)
                return self.str_order(op, sv(a.t), sv(b.t), a, b, st)
            self.raise_if(st, z3.Not(both_i), 'TypeError', 'safe/type-order', e)
            x, y = iv(a.t), iv(b.t)
        return {ast.Lt: x < y, ast.LtE: x <= y, ast.Gt: x > y, ast.GtE: x >= y}[type(op)]

    def str_order(self, op, x, y, a, b, st):
        # single characters compare by code point; general strings lexicographically (z3 str.<=)
        if a.ty == 'char' or b.ty == 'char':
            # when one side is a single character and the other has length 1 as well, compare codes
            cx, cy = z3.StrToCode(x), z3.StrToCode(y)
            one = z3.And(z3.Length(x) == 1, z3.Length(y) == 1)
            lex = {ast.Lt: x < y, ast.LtE: x <= y, ast.Gt: y < x, ast.GtE: y <= x}[type(op)]
            code = {ast.Lt: cx < cy, ast.LtE: cx <= cy, ast.Gt: cx > cy, ast.GtE: cx >= cy}[type(op)]
            if a.ty == 'char' and b.ty == 'char':
                # both have at most one character (a character literal, s[i], an element of a str iteration; an out-of-range s[i]
                # inside a specification is the empty string): code order and lexicographic order coincide (str.to_code("") = -1)
                return code
            return z3.If(one, code, lex)
        return {ast.Lt: x < y, ast.LtE: x <= y, ast.Gt: y < x, ast.GtE: y <= x}[type(op)]

    def contains(self, a, b, st, e, rnode):
        # x in 'literal'
        if isinstance(rnode, ast.Constant) and isinstance(rnode.value, str):
            self.need_type(st, a, is_s, 'in-str', e)
            lit = lit_str(rnode.value)
            x = sv(a.t)
            if a.ty == 'char':
                cs = sorted(set(lit))
                return z3.Or(*[x == z3.StringVal(c) for c in cs]) if cs else z3.BoolVal(False)
            return z3.Or(*[x == z3.StringVal(s) for s in substrings(lit)])
        if isinstance(b.ty, tuple) and b.ty[0] == 'classdict':
            lnode = e.left if isinstance(e, ast.Compare) else None
            if isinstance(lnode, ast.Constant) and isinstance(lnode.value, str):
                return z3.Select(self.harr(st, 'own:' + lnode.value), rv(b.t))
            raise OutOfSubset('computed name in cls.__dict__')
        if isinstance(rnode, (ast.List, ast.Tuple, ast.Set)):
            return z3.Or(*[self.py_eq(a, self.ev(x, st), st) for x in rnode.elts]) if rnode.elts else z3.BoolVal(False)
        if self.is_strlike(b):
            self.need_type(st, a, is_s, 'in-str', e)
            return z3.Contains(sv(b.t), sv(a.t))
        if b.ty in ('list', 'tuple'):
            return z3.Contains(self.seq_of(st, b), z3.Unit(a.t))
        if b.ty in ('dict', 'set'):
            return z3.Select(z3.Select(self.harr(st, '$dhas'), rv(b.t)), a.t)
        if b.ty is None:
            # dynamic: dict/set membership, list membership or substring
            isd = z3.And(is_r(b.t), z3.Or(typ(rv(b.t)) == 2, typ(rv(b.t)) == 4))
            isl = z3.And(is_r(b.t), z3.Or(typ(rv(b.t)) == 1, typ(rv(b.t)) == 3))
            iss = z3.And(is_s(b.t), is_s(a.t))
            self.raise_if(st, z3.Not(z3.Or(isd, isl, iss)), 'TypeError', 'safe/type-in', e)
            return z3.If(isd, z3.Select(z3.Select(self.harr(st, '$dhas'), rv(b.t)), a.t),
                         z3.If(isl, z3.Contains(self.seq_of(st, b), z3.Unit(a.t)), z3.Contains(sv(b.t), sv(a.t))))
        raise OutOfSubset('in on %s' % b.ty)

    # ---- containers
    def e_List(self, e, st):
        vals = [self.ev(x, st) for x in e.elts]
        if self.spec_mode:
            return Val(self.seq_lit(vals), 'seq', elems=vals)     # a pure sequence value: specifications allocate nothing
        return self.new_list(st, self.seq_lit(vals), 'list')

    def e_Tuple(self, e, st):
        vals = [self.ev(x, st) for x in e.elts]
        if self.spec_mode:
            return Val(self.seq_lit(vals), 'seq', elems=vals)
        r = self.new_list(st, self.seq_lit(vals), 'tuple')
        r.elems = vals
        return r

    def e_Dict(self, e, st):
        d = self.new_dict(st)
        for k, v in zip(e.keys, e.values):
            if k is None:
                raise OutOfSubset('dict unpacking')
            self.dict_set(st, d, self.ev(k, st), self.ev(v, st))
        return d

    def dict_set(self, st, d, k, v):
        ref = rv(d.t)
        has = z3.Select(self.harr(st, '$dhas'), ref)
        val = z3.Select(self.harr(st, '$dval'), ref)
        keys = z3.Select(self.harr(st, '$dkeys'), ref)
        newkeys = z3.If(z3.Select(has, k.t), keys, z3.Concat(keys, z3.Unit(k.t)))
        st.heap['$dkeys'] = z3.Store(self.harr(st, '$dkeys'), ref, newkeys)
        st.heap['$dhas'] = z3.Store(self.harr(st, '$dhas'), ref, z3.Store(has, k.t, True))
        st.heap['$dval'] = z3.Store(self.harr(st, '$dval'), ref, z3.Store(val, k.t, v.t))

    def index_norm(self, st, idx, n, exc, kind, node):
        """Python index normalisation with IndexError outside [-n, n)"""
        i = iv(idx.t)
        self.raise_if(st, z3.Or(i >= n, i < -n), exc, kind, node)
        return z3.If(i < 0, i + n, i)

    def e_Subscript(self, e, st):
        base = self.ev(e.value, st)
        if isinstance(e.slice, ast.Slice):
            return self.slice(base, e.slice, st, e)
        idx = self.ev(e.slice, st)
        return self.getitem(base, idx, st, e)

    def loop_ordinal_of(self, node):
        """ordinal of a loop (while / for / list comprehension) in source order within the function"""
        if not hasattr(self, '_loop_ids'):
            ids = {}

            def visit(n):
                if isinstance(n, (ast.While, ast.For, ast.ListComp)):
                    ids[id(n)] = len(ids)
                for c in ast.iter_child_nodes(n):
                    visit(c)
            visit(self.f.node)
            self._loop_ids = ids
        k = self._loop_ids.get(id(node))
        if k is None:
            k = self._loop_ids.get(id(getattr(node, '_comp_of', None)))
        if k is None:
            raise OutOfSubset('loop outside the function body')
        return k

    def entry_alloc(self):
        return z3.Int('alloc0')

    def getitem(self, base, idx, st, e):
        if base.ty == 'seq':
            t = base.t[iv(idx.t)]
            return Val(t, None)
        if self.is_strlike(base) or base.ty == 'bytes':
            self.need_type(st, idx, is_i, 'index', e)
            s_ = sv(base.t) if base.ty != 'bytes' else yv(base.t)
            n = z3.Length(s_)
            j = self.index_norm(st, idx, n, 'IndexError', 'safe/index', e)
            if base.ty == 'bytes':
                return Val(mk_i(z3.StrToCode(z3.SubString(s_, j, 1))), 'int')
            return Val(mk_s(z3.SubString(s_, j, 1)), 'char')
        if base.ty in ('list', 'tuple'):
            self.need_type(st, idx, is_i, 'index', e)
            q = self.seq_of(st, base)
            j = self.index_norm(st, idx, z3.Length(q), 'IndexError', 'safe/index', e)
            t = q[j]
            self.assume_allocated(st, t)
            return Val(t, None)
        if base.ty == 'dict':
            ref = rv(base.t)
            has = z3.Select(z3.Select(self.harr(st, '$dhas'), ref), idx.t)
            self.raise_if(st, z3.Not(has), 'KeyError', 'safe/key', e)
            t = z3.Select(z3.Select(self.harr(st, '$dval'), ref), idx.t)
            self.assume_allocated(st, t)
            return Val(t, None)
        if base.ty is None:
            # dynamic dispatch on the run-time type
            if not self.spec_mode and self.quick_unsat(st.pc, z3.Not(is_y(base.t))):
                return self.getitem(Val(base.t, 'bytes'), idx, st, e)
            isl = z3.And(is_r(base.t), z3.Or(typ(rv(base.t)) == 1, typ(rv(base.t)) == 3))
            isd = z3.And(is_r(base.t), typ(rv(base.t)) == 2)
            iss = is_s(base.t)
            self.raise_if(st, z3.Not(z3.Or(isl, isd, iss)), 'TypeError', 'safe/type-subscript', e)
            q = self.seq_of(st, base.t)
            n = z3.If(iss, z3.Length(sv(base.t)), z3.Length(q))
            i = iv(idx.t)
            self.raise_if(st, z3.And(z3.Not(isd), z3.Not(is_i(idx.t))), 'TypeError', 'safe/type-index', e)
            self.raise_if(st, z3.And(z3.Not(isd), z3.Or(i >= n, i < -n)), 'IndexError', 'safe/index', e)
            hasd = z3.Select(z3.Select(self.harr(st, '$dhas'), rv(base.t)), idx.t)
            self.raise_if(st, z3.And(isd, z3.Not(hasd)), 'KeyError', 'safe/key', e)
            j = z3.If(i < 0, i + n, i)
            t = z3.If(iss, mk_s(z3.SubString(sv(base.t), j, 1)),
                      z3.If(isd, z3.Select(z3.Select(self.harr(st, '$dval'), rv(base.t)), idx.t), q[j]))
            self.assume_allocated(st, t)
            return Val(t, None)
        raise OutOfSubset('subscript of %s' % base.ty)

    def slice_bounds(self, sl, n, st):
        def clamp(x):
            x = z3.If(x < 0, x + n, x)
            return z3.If(x < 0, 0, z3.If(x > n, n, x))
        if sl.step is not None:
            raise OutOfSubset('slice step')
        if sl.lower is None:
            lo = z3.IntVal(0)
        else:
            v = self.ev(sl.lower, st)
            self.need_type(st, v, is_i, 'slice', sl)
            lo = clamp(iv(v.t))
        if sl.upper is None:
            hi = n
        else:
            v = self.ev(sl.upper, st)
            self.need_type(st, v, is_i, 'slice', sl)
            hi = clamp(iv(v.t))
        return lo, hi

    def slice(self, base, sl, st, e):
        if self.is_strlike(base) or base.ty == 'bytes':
            s_ = sv(base.t) if base.ty != 'bytes' else yv(base.t)
            lo, hi = self.slice_bounds(sl, z3.Length(s_), st)
            r = z3.SubString(s_, lo, z3.If(hi > lo, hi - lo, 0))
            if not self.spec_mode:
                # valid string fact, stated so that character-wise specifications instantiate: the k-th character of a slice is
                # the (lo+k)-th character of the text
                k = z3.Int(fresh_name('sk'))
                st.assume(z3.ForAll([k], z3.Implies(z3.And(0 <= k, k < z3.Length(r)), z3.SubString(r, k, 1) == z3.SubString(s_, lo + k, 1))))
            return Val(mk_s(r), 'str') if base.ty != 'bytes' else Val(mk_y(r), 'bytes')
        if base.ty in ('list', 'tuple'):
            q = self.seq_of(st, base)
            lo, hi = self.slice_bounds(sl, z3.Length(q), st)
            r = z3.Extract(q, lo, z3.If(hi > lo, hi - lo, 0))
            return self.new_list(st, r, base.ty)
        if base.ty is None:
            # a str or a list, decided by the value: the slice of a list is a new list (allocated in either case; unused for a str)
            isl = z3.And(is_r(base.t), typ(rv(base.t)) == 1)
            self.raise_if(st, z3.Not(z3.Or(is_s(base.t), isl)), 'TypeError', 'safe/type-slice-base', e)
            if self.quick_unsat(st.pc, isl):
                s_ = sv(base.t)
                lo, hi = self.slice_bounds(sl, z3.Length(s_), st)
                return Val(mk_s(z3.SubString(s_, lo, z3.If(hi > lo, hi - lo, 0))), 'str')
            s_ = sv(base.t)
            q = z3.Select(self.harr(st, '$seq'), rv(base.t))
            n = z3.If(isl, z3.Length(q), z3.Length(s_))
            lo, hi = self.slice_bounds(sl, n, st)
            cnt = z3.If(hi > lo, hi - lo, 0)
            nl = self.new_list(st, z3.Extract(q, lo, cnt), 'list')
            return Val(z3.If(isl, nl.t, mk_s(z3.SubString(s_, lo, cnt))), None)
        raise OutOfSubset('slice of %s' % base.ty)

    def e_ListComp(self, e, st):
        """[elt for x in xs (if c)] is executed as  $comp = []; for x in xs: (if c:) $comp.append(elt)  -- a loop like any other
        (its invariants are keyed by its loop ordinal; the accumulator is visible to them as `comp`)"""
        if self.spec_mode or len(e.generators) != 1 or e.generators[0].is_async:
            raise OutOfSubset('list comprehension (line %d)' % e.lineno)
        from .stmts import Runner
        g = e.generators[0]
        ln = dict(lineno=e.lineno, col_offset=e.col_offset)
        acc = 'comp'
        if acc in st.env:
            raise OutOfSubset('nested comprehension accumulators')
        st.env[acc] = self.new_list(st, z3.Empty(SeqV), 'list')
        body = ast.Expr(ast.Call(ast.Attribute(ast.Name(acc, ast.Load(), **ln), 'append', ast.Load(), **ln), [e.elt], [], **ln), **ln)
        for c in reversed(g.ifs):
            body = ast.If(c, [body], [], **ln)
        loop = ast.For(g.target, g.iter, [body], [], **ln)
        loop._comp_of = e
        outs = Runner(self).s_For(loop, st)
        nxt = [o for o in outs if o.kind == 'next']
        for o in outs:
            if o.kind == 'raise':
                self.pending.append(o)
            elif o.kind != 'next':
                raise OutOfSubset('control flow out of a comprehension')
        if not nxt:
            st.assume(z3.BoolVal(False))
            return Val(fresh_v('comp'), 'list')
        r = nxt[0].st
        st.pc, st.heap, st.env, st.alloc, st.unbound = r.pc, r.heap, dict(r.env), r.alloc, r.unbound
        res = st.env.pop(acc)
        # the comprehension variable is local to the comprehension
        for n in ast.walk(g.target):
            if isinstance(n, ast.Name):
                st.env.pop(n.id, None)
        return Val(res.t, 'list')

    def e_JoinedStr(self, e, st):
        raise OutOfSubset('f-string')

    def e_Lambda(self, e, st):
        return Val(mk_r(self.w.static('lambda:%d' % e.lineno)), 'func')

    # ------------------------------------------------------------------ calls
    def e_Call(self, e, st):
        from .calls import do_call
        return do_call(self, e, st)

    # ------------------------------------------------------------------ spec expressions
    def spec(self, text, st, old=None, result=None, ghost=None):
        """translate one contract clause (string or callable) to a z3 Bool in state st"""
        if callable(text):
            return text(SpecCx(self, st, old, result))
        self.spec_mode += 1
        saved = (self.result_val, getattr(self, 'old_state', None), self.ghost_env)
        try:
            self.result_val = result
            self.old_state = old
            if ghost:
                self.ghost_env = dict(self.ghost_env); self.ghost_env.update(ghost)
            tree = parse_spec(text)
            v = self.ev(tree, st)
            return self.truthy(st, v)
        finally:
            self.result_val, self.old_state, self.ghost_env = saved
            self.spec_mode -= 1

    def spec_val(self, text, st, old=None, result=None):
        self.spec_mode += 1
        saved = (self.result_val, getattr(self, 'old_state', None))
        try:
            self.result_val = result
            self.old_state = old
            return self.ev(parse_spec(text), st)
        finally:
            self.result_val, self.old_state = saved
            self.spec_mode -= 1


class SpecCx:
    """what a callable clause sees"""

    def __init__(self, ex, st, old, result):
        self.ex, self.st, self.old, self.result = ex, st, old, result

    def ev(self, text, state=None):
        return self.ex.spec_val(text, state or self.st, self.old, self.result)

    def b(self, text, state=None):
        return self.ex.spec(text, state or self.st, self.old, self.result)


_spec_cache = {}


def parse_spec(text):
    if text in _spec_cache:
        return _spec_cache[text]
    src = rewrite_implies(text.strip())
    tree = ast.parse(src, mode='eval').body
    _spec_cache[text] = tree
    return tree


def rewrite_implies(src):
    """a ==> b (right associative, lowest precedence inside its bracket group / argument) becomes implies((a), (b))"""
    if '==>' not in src:
        return src
    # rewrite inside bracket groups first
    out, i, n = '', 0, len(src)
    instr = None
    while i < n:
        ch = src[i]
        if instr:
            out += ch
            if ch == '\\':
                out += src[i + 1]; i += 1
            elif ch == instr:
                instr = None
        elif ch in '\'"':
            instr = ch; out += ch
        elif ch in '([{':
            # find the matching close
            depth, j, ins = 1, i + 1, None
            while j < n and depth:
                c = src[j]
                if ins:
                    if c == '\\':
                        j += 1
                    elif c == ins:
                        ins = None
                elif c in '\'"':
                    ins = c
                elif c in '([{':
                    depth += 1
                elif c in ')]}':
                    depth -= 1
                j += 1
            inner = src[i + 1:j - 1]
            pieces = split_top(inner, ',')
            out += ch + ','.join(rewrite_implies(p) for p in pieces) + src[j - 1]
            i = j - 1
        else:
            out += ch
        i += 1
    parts = split_top(out, '==>')
    if len(parts) > 1:
        expr = parts[-1].strip()
        for p in reversed(parts[:-1]):
            expr = 'implies((%s), (%s))' % (p.strip(), expr)
        out = expr
    return out


def split_top(s, sep):
    out, depth, cur, i = [], 0, '', 0
    instr = None
    while i < len(s):
        ch = s[i]
        if instr:
            cur += ch
            if ch == '\\':
                cur += s[i + 1]; i += 1
            elif ch == instr:
                instr = None
        elif ch in '\'"':
            instr = ch; cur += ch
        elif ch in '([{':
            depth += 1; cur += ch
        elif ch in ')]}':
            depth -= 1; cur += ch
        elif depth == 0 and s.startswith(sep, i):
            out.append(cur); cur = ''; i += len(sep) - 1
        else:
            cur += ch
        i += 1
    out.append(cur)
    return out
