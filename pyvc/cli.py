import sys, os, argparse, json


def main():
    ap = argparse.ArgumentParser()
    ap.add_argument('pid')
    ap.add_argument('--tier', default=os.environ.get('VERIF_TIER', 'quick'))
    ap.add_argument('--replay')
    ap.add_argument('--jobs', type=int, default=None)
    a = ap.parse_args()
    seed = int(os.environ.get('VERIF_SEED', '0') or 0)
    if a.replay:
        from .replay import replay_file
        sys.exit(replay_file(a.pid, a.replay))
    from .run import run_property
    try:
        rc = run_property(a.pid, a.tier if a.tier in ('quick', 'thorough') else 'quick', seed, a.jobs)
    except Exception:
        import traceback
        traceback.print_exc()
        rc = 3
    sys.exit(rc)


if __name__ == '__main__':
    main()
