"""The universal value sort and the heap vocabulary (DESIGN 3.3)."""
import z3

_V = z3.Datatype('V')
_V.declare('none')
_V.declare('b', ('bv', z3.BoolSort()))
_V.declare('i', ('iv', z3.IntSort()))
_V.declare('s', ('sv', z3.StringSort()))
_V.declare('y', ('yv', z3.StringSort()))      # bytes (one char per byte)
_V.declare('r', ('rv', z3.IntSort()))         # reference to a heap object (negative: static object)
_V.declare('fl', ('flv', z3.IntSort()))       # opaque float
V = _V.create()
SeqV = z3.SeqSort(V)
ArrV = z3.ArraySort(z3.IntSort(), V)
ArrSeq = z3.ArraySort(z3.IntSort(), SeqV)
ArrHas = z3.ArraySort(z3.IntSort(), z3.ArraySort(V, z3.BoolSort()))
ArrMap = z3.ArraySort(z3.IntSort(), z3.ArraySort(V, V))

typ = z3.Function('typ', z3.IntSort(), z3.IntSort())
tup = z3.Function('tup', z3.IntSort(), z3.SeqSort(V))    # contents of a tuple object (tuples are immutable: not part of the mutable heap)     # class id of a heap object (immutable)

NONE = V.none


def _is_app(e, decl):
    return z3.is_app(e) and e.decl().eq(decl)


def mk_b(c):
    if isinstance(c, bool):
        c = z3.BoolVal(c)
    return V.b(c)


def mk_i(n):
    if isinstance(n, int):
        n = z3.IntVal(n)
    return V.i(n)


def mk_s(x):
    if isinstance(x, str):
        x = z3.StringVal(x)
    return V.s(x)


def mk_y(x):
    if isinstance(x, (bytes, bytearray)):
        x = z3.StringVal(''.join(chr(c) for c in x))
    return V.y(x)


def mk_r(x):
    if isinstance(x, int):
        x = z3.IntVal(x)
    return V.r(x)


def iv(v):
    if _is_app(v, V.i):
        return v.arg(0)
    return V.iv(v)


def bv(v):
    if _is_app(v, V.b):
        return v.arg(0)
    return V.bv(v)


def sv(v):
    if _is_app(v, V.s):
        return v.arg(0)
    return V.sv(v)


def yv(v):
    if _is_app(v, V.y):
        return v.arg(0)
    return V.yv(v)


def rv(v):
    if _is_app(v, V.r):
        return v.arg(0)
    return V.rv(v)


def is_none(v):
    if z3.is_app(v) and v.num_args() == 0 and v.decl().eq(V.none.decl()):
        return z3.BoolVal(True)
    for c in (V.b, V.i, V.s, V.y, V.r, V.fl):
        if _is_app(v, c):
            return z3.BoolVal(False)
    return V.is_none(v)


def _tester(name, ctor):
    t = getattr(V, 'is_' + name)

    def f(v):
        if _is_app(v, ctor):
            return z3.BoolVal(True)
        if z3.is_app(v) and v.num_args() == 0 and v.decl().eq(V.none.decl()):
            return z3.BoolVal(False)
        for c in (V.b, V.i, V.s, V.y, V.r, V.fl):
            if c is not ctor and _is_app(v, c):
                return z3.BoolVal(False)
        return t(v)
    return f


is_b = _tester('b', V.b)
is_i = _tester('i', V.i)
is_s = _tester('s', V.s)
is_y = _tester('y', V.y)
is_r = _tester('r', V.r)
is_fl = _tester('fl', V.fl)


def truthy(v, seq_len=None):
    """Python truth value of v.  seq_len: callback ref-term -> z3 Int length for containers (or None)."""
    if _is_app(v, V.b):
        return v.arg(0)
    if _is_app(v, V.i):
        return v.arg(0) != 0
    if _is_app(v, V.s) or _is_app(v, V.y):
        return z3.Length(v.arg(0)) > 0
    if z3.is_app(v) and v.num_args() == 0 and v.decl().eq(V.none.decl()):
        return z3.BoolVal(False)
    ref_truth = z3.BoolVal(True)
    if seq_len is not None:
        ref_truth = seq_len(v)
    return z3.If(V.is_none(v), False,
           z3.If(V.is_b(v), V.bv(v),
           z3.If(V.is_i(v), V.iv(v) != 0,
           z3.If(V.is_s(v), z3.Length(V.sv(v)) > 0,
           z3.If(V.is_y(v), z3.Length(V.yv(v)) > 0,
           z3.If(V.is_r(v), ref_truth, True))))))


def simp(e):
    return z3.simplify(e)


# ---- solver call with a hard stop: z3's own 'timeout' parameter is occasionally not honoured (seen: a check() that ran for two hours
# under load); a timer thread interrupts the solver shortly after its budget, and every call beats the worker's heartbeat so that the
# scheduler (run.py) can tell a busy worker from a stuck one.
import threading as _threading, time as _time
HEARTBEAT = [None]          # set by run.py in worker processes: a multiprocessing.Value('d')


def beat():
    hb = HEARTBEAT[0]
    if hb is not None:
        hb.value = _time.time()


def guarded_check(s, budget_ms):
    beat()
    # the timer must not hold the solver (a solver released on the timer's thread races with z3 calls on the main thread)
    t = _threading.Timer(budget_ms / 1000.0 * 1.5 + 5.0, z3.main_ctx().interrupt)
    t.daemon = True
    t.start()
    try:
        return s.check()
    finally:
        t.cancel()
        beat()
