"""Sidecar contract records (DESIGN 3.2).  /verif/contracts/*.py populate this registry."""
import importlib, os, glob, sys
from . import VERIF


class Contract:
    def __init__(self, qual, **kw):
        self.qual = qual
        self.params = kw.pop('params', {})          # name -> type name
        self.result = kw.pop('result', None)        # type name
        self.requires = list(kw.pop('requires', []))
        self.ensures = list(kw.pop('ensures', []))
        self.ensures_raise = dict(kw.pop('ensures_raise', {}))   # exc class -> [clauses over the state at the raise]
        self.modifies = list(kw.pop('modifies', []))
        self.raises = list(kw.pop('raises', []))    # exception class names that may escape
        self.raises_any = kw.pop('raises_any', False)   # callee may raise anything (user callbacks, streams)
        self.invariants = dict(kw.pop('invariants', {}))  # loop ordinal -> [clauses]
        self.variants = dict(kw.pop('variants', {}))      # loop ordinal -> int expr (must decrease, >= 0)
        self.loop_frames = dict(kw.pop('loop_frames', {}))
        self.hints = list(kw.pop('hints', []))
        self.axioms = list(kw.pop('axioms', []))     # definitions of spec functions (assumed at entry, never checked at call sites)
        self.inline = kw.pop('inline', False)
        self.trusted = kw.pop('trusted', False)     # assumed, never verified (externals / built-ins)
        self.why_trusted = kw.pop('why', '')
        self.props = list(kw.pop('props', []))      # property ids this contract carries
        self.ctx = kw.pop('ctx', None)              # concrete class used to resolve self.<method>
        self.ghost = dict(kw.pop('ghost', {}))
        self.labels = dict(kw.pop('labels', {}))    # ensures index -> short name
        self.pure = kw.pop('pure', False)
        self.covers = list(kw.pop('covers', []))    # extra reachability checks (must be sat)
        self.tier = kw.pop('tier', 'quick')
        self.dead_loops = list(kw.pop('dead_loops', []))   # loops that are unreachable under the contract (no reachability cover demanded)
        self.max_paths = kw.pop('max_paths', 24)     # live paths before sibling states are merged
        # generator functions (two-phase constructors): clauses proved at the `yield` (result = the yielded value, old = entry),
        # what the rest of the world may change while the generator is suspended, and what is assumed when it is resumed.
        # `ensures` of a generator are proved at exhaustion with old = the state at resumption and `yielded` = the yielded value.
        # cut points: [(prefix of ast.unparse(statement), [clauses])]: proved right after that statement on every path that reaches it, then
        # assumed -- a lemma placed where it is easy, so that the obligations further down do not have to re-derive it through merged states
        self.cuts = list(kw.pop('cuts', []))
        self.split_loops = kw.pop('split_loops', False)   # up to 4 incoming paths enter a loop separately (its obligations are generated per path)
        self.at_yield = list(kw.pop('at_yield', []))
        self.yield_labels = dict(kw.pop('yield_labels', {}))
        self.resume_modifies = list(kw.pop('resume_modifies', []))
        self.resume_ensures = list(kw.pop('resume_ensures', []))
        if kw:
            raise TypeError('unknown contract keys %s for %s' % (list(kw), qual))


class Registry:
    def __init__(self):
        self.contracts = {}       # qual -> Contract
        self.fields = {}          # class qual -> {field: type}
        self.macros = {}          # name -> (params, body string or callable)
        self.externs = {}         # (recv type, method) -> Contract
        self.lemmas = {}
        self.loaded = False

    def contract(self, qual, **kw):
        c = Contract(qual, **kw)
        if qual in self.contracts:
            raise KeyError('duplicate contract ' + qual)
        self.contracts[qual] = c
        return c

    def fields_(self, cls_qual, **kw):
        self.fields.setdefault(cls_qual, {}).update(kw)

    def define(self, name, params, body):
        self.macros[name] = (list(params), body)

    def extern(self, recv_type, method, **kw):
        c = Contract('%s.%s' % (recv_type, method), trusted=True, **kw)
        self.externs[(recv_type, method)] = c
        return c

    def lemma(self, name, fn):
        self.lemmas[name] = fn


REG = Registry()
contract = REG.contract
fields = REG.fields_
define = REG.define
extern = REG.extern
lemma = REG.lemma


def load_all():
    if REG.loaded:
        return REG
    d = os.path.join(VERIF, 'contracts')
    if VERIF not in sys.path:
        sys.path.insert(0, VERIF)
    for p in sorted(glob.glob(os.path.join(d, '*.py'))):
        name = os.path.basename(p)[:-3]
        if name.startswith('_'):
            continue
        importlib.import_module('contracts.' + name)
    REG.loaded = True
    return REG
