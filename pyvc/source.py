"""Source access: parse /repo/lib/yaml/*.py on every run and index what the contracts talk about.

Extraction drops exactly: comments, docstrings, formatting.  Nothing is rewritten.
"""
import ast, os, hashlib, glob
from . import REPO


class ClassInfo:
    def __init__(self, module, node):
        self.module = module
        self.node = node
        self.name = node.name
        self.qual = module.name + '.' + node.name
        self.base_exprs = node.bases
        self.bases = []          # resolved ClassInfo or builtin-name strings
        self.methods = {}        # name -> FuncInfo (own)
        self.attrs = {}          # name -> ast expr (own class-level assignments)
        self.mro = None
        self.metaclass = None
        for kw in node.keywords:
            if kw.arg == 'metaclass':
                self.metaclass = kw.value

    def __repr__(self):
        return '<class %s>' % self.qual


class FuncInfo:
    def __init__(self, module, node, cls=None):
        self.module = module
        self.node = node
        self.cls = cls
        self.name = node.name
        self.qual = (cls.qual if cls else module.name) + '.' + node.name
        self.decorators = [ast.unparse(d) for d in node.decorator_list]
        self.is_classmethod = 'classmethod' in self.decorators
        self.is_staticmethod = 'staticmethod' in self.decorators
        self.is_generator = any(isinstance(n, (ast.Yield, ast.YieldFrom)) for n in ast.walk(node))

    @property
    def params(self):
        a = self.node.args
        return [x.arg for x in a.posonlyargs + a.args]

    def defaults(self):
        a = self.node.args
        names = [x.arg for x in a.posonlyargs + a.args]
        d = {}
        for n, v in zip(names[len(names) - len(a.defaults):], a.defaults):
            d[n] = v
        for n, v in zip(a.kwonlyargs, a.kw_defaults):
            if v is not None:
                d[n.arg] = v
        return d

    def __repr__(self):
        return '<func %s>' % self.qual


class ModuleInfo:
    def __init__(self, name, path):
        self.name = name
        self.path = path
        self.text = open(path, encoding='utf-8').read()
        self.sha256 = hashlib.sha256(self.text.encode('utf-8')).hexdigest()
        self.tree = ast.parse(self.text, path)
        self.classes = {}
        self.funcs = {}
        self.assigns = {}      # module-level NAME = expr
        self.imports = {}      # local name -> ('module', modname) | ('from', modname, name)
        self.star_imports = [] # module names
        self.all = None
        self.body_calls = []   # module-level expression statements (e.g. X.add_constructor(...)) in order
        for st in self.tree.body:
            self._top(st)

    def _top(self, st):
        if isinstance(st, ast.ClassDef):
            ci = ClassInfo(self, st)
            self.classes[st.name] = ci
            for s in st.body:
                if isinstance(s, ast.FunctionDef):
                    ci.methods[s.name] = FuncInfo(self, s, ci)
                elif isinstance(s, ast.Assign):
                    for t in s.targets:
                        if isinstance(t, ast.Name):
                            ci.attrs[t.id] = s.value
        elif isinstance(st, ast.FunctionDef):
            self.funcs[st.name] = FuncInfo(self, st)
        elif isinstance(st, ast.Assign):
            for t in st.targets:
                if isinstance(t, ast.Name):
                    self.assigns[t.id] = st.value
                    if t.id == '__all__':
                        try:
                            self.all = list(ast.literal_eval(st.value))
                        except Exception:
                            pass
        elif isinstance(st, ast.Import):
            for a in st.names:
                self.imports[(a.asname or a.name).split('.')[0]] = ('module', a.name if a.asname else a.name.split('.')[0])
        elif isinstance(st, ast.ImportFrom):
            mod = ('yaml.' + st.module if st.module else 'yaml') if st.level else st.module
            for a in st.names:
                if a.name == '*':
                    self.star_imports.append(mod)
                else:
                    self.imports[a.asname or a.name] = ('from', mod, a.name)
        elif isinstance(st, ast.Expr):
            self.body_calls.append(st)
        elif isinstance(st, ast.Try):
            for s in st.body:
                self._top(s)
        elif isinstance(st, ast.If):
            pass


class Repo:
    def __init__(self, root=None):
        self.root = root or REPO
        self.lib = os.path.join(self.root, 'lib', 'yaml')
        self.modules = {}
        for p in sorted(glob.glob(os.path.join(self.lib, '*.py'))):
            base = os.path.basename(p)[:-3]
            name = 'yaml' if base == '__init__' else 'yaml.' + base
            self.modules[name] = ModuleInfo(name, p)
        self._resolve()

    # ---------------------------------------------------------------- name resolution
    def exported(self, modname):
        m = self.modules.get(modname)
        if m is None:
            return {}
        out = {}
        for s in m.star_imports:
            out.update(self.exported(s))
        for n, v in m.imports.items():
            if v[0] == 'from' and v[1] in self.modules:
                r = self.lookup(v[1], v[2])
                if r is not None:
                    out[n] = r
        for n, c in m.classes.items():
            out[n] = c
        for n, f in m.funcs.items():
            out[n] = f
        if m.all is not None and modname != 'yaml':
            out = {k: v for k, v in out.items() if k in m.all}
        return out

    def lookup(self, modname, name):
        """resolve a global name used inside module `modname` to ClassInfo / FuncInfo / ('module',n) / ('const',expr) / None"""
        m = self.modules.get(modname)
        if m is None:
            return None
        if name in m.classes:
            return m.classes[name]
        if name in m.funcs:
            return m.funcs[name]
        if name in m.assigns:
            return ('const', m.assigns[name], m)
        if name in m.imports:
            v = m.imports[name]
            if v[0] == 'module':
                return ('module', v[1])
            if v[1] in self.modules:
                return self.lookup(v[1], v[2])
            return ('extern', v[1] + '.' + v[2])
        for s in reversed(m.star_imports):
            if s in self.modules:
                e = self.exported(s)
                if name in e:
                    return e[name]
        return None

    def _resolve(self):
        for m in self.modules.values():
            for c in m.classes.values():
                c.bases = []
                for b in c.base_exprs:
                    r = self.lookup(m.name, b.id) if isinstance(b, ast.Name) else None
                    c.bases.append(r if isinstance(r, ClassInfo) else ast.unparse(b))
        for m in self.modules.values():
            for c in m.classes.values():
                self.mro(c)

    def mro(self, c):
        if c.mro is not None:
            return c.mro
        seqs = []
        for b in c.bases:
            if isinstance(b, ClassInfo):
                seqs.append(list(self.mro(b)))
            else:
                seqs.append([b])
        seqs.append(list(c.bases))
        res = [c]
        seqs = [s for s in seqs if s]
        while seqs:
            for s in seqs:
                h = s[0]
                if not any(h in t[1:] for t in seqs):
                    break
            else:
                raise TypeError('inconsistent MRO for %s' % c.qual)
            res.append(h)
            seqs = [[x for x in s if x is not h and x != h] for s in seqs]
            seqs = [s for s in seqs if s]
        # builtin 'object' last, once
        res = [x for x in res if x != 'object']
        c.mro = res
        return res

    # ---------------------------------------------------------------- queries
    def cls(self, qual):
        mod, _, name = qual.rpartition('.')
        return self.modules[mod].classes[name]

    def all_classes(self):
        for m in self.modules.values():
            for c in m.classes.values():
                yield c

    def func(self, qual):
        """'yaml.reader.Reader.forward' or 'yaml.load'"""
        parts = qual.split('.')
        for k in range(len(parts) - 1, 0, -1):
            mod = '.'.join(parts[:k])
            if mod in self.modules:
                m = self.modules[mod]
                rest = parts[k:]
                if len(rest) == 1 and rest[0] in m.funcs:
                    return m.funcs[rest[0]]
                if len(rest) == 2 and rest[0] in m.classes and rest[1] in m.classes[rest[0]].methods:
                    return m.classes[rest[0]].methods[rest[1]]
        raise KeyError(qual)

    def find_method(self, cls, name):
        """first definition of `name` along the MRO of cls (ClassInfo); None if not a library method"""
        for k in cls.mro:
            if isinstance(k, ClassInfo) and name in k.methods:
                return k.methods[name]
        return None

    def find_attr(self, cls, name):
        for k in cls.mro:
            if isinstance(k, ClassInfo):
                if name in k.attrs:
                    return k, k.attrs[name]
                if name in k.methods:
                    return k, k.methods[name]
        return None

    def subclasses(self, cls):
        return [c for c in self.all_classes() if cls in c.mro]

    def is_subclass(self, c, d):
        return d in c.mro

    def sha(self):
        return {os.path.relpath(m.path, self.root): m.sha256 for m in self.modules.values()}

    def all_funcs(self):
        for m in self.modules.values():
            for f in m.funcs.values():
                yield f
            for c in m.classes.values():
                for f in c.methods.values():
                    yield f


_cached = None


def repo():
    global _cached
    if _cached is None:
        _cached = Repo()
    return _cached
