"""Call handling: spec functions, built-ins with assumed contracts, library methods via contracts or inlining."""
import ast
import z3
from .z3v import *
from . import z3v
from .source import ClassInfo, FuncInfo
from .spec import REG
from .symex import Val, OutOfSubset, Outcome, State, fresh_v, fresh_name, lit_str, BUILTIN_TYPES

USED_TRUSTED = {}        # qual -> why: assumed (never verified) contracts applied in this run
USED_BUILTINS = set()     # names of assumed built-in contracts actually used in this run (reported as trusted base)


def used(name):
    USED_BUILTINS.add(name)


def kwargs_of(e):
    return {k.arg: k.value for k in e.keywords if k.arg is not None}


def do_call(ex, e, st):
    f = e.func
    # ---------------- spec-only functions
    if isinstance(f, ast.Name):
        n = f.id
        if ex.spec_mode and n in SPEC_FUNCS:
            return SPEC_FUNCS[n](ex, e, st)
        if ex.spec_mode and n in REG.macros:
            return expand_macro(ex, n, e, st)
        if n in st.env:
            return call_value(ex, st.env[n], e, st)
        g = ex.repo.lookup(ex.f.module.name, n)
        if isinstance(g, ClassInfo):
            return instantiate(ex, g, e, st)
        if isinstance(g, FuncInfo):
            args = [ex.ev(a, st) for a in e.args]
            return call_function(ex, g, None, args, kwargs_of(e), e, st)
        if n in BUILTIN_FUNCS:
            return BUILTIN_FUNCS[n](ex, e, st)
        raise OutOfSubset('call of %s (line %d)' % (n, e.lineno))
    if isinstance(f, ast.Attribute):
        # module function:  codecs.x(...), base64.x(...)
        if isinstance(f.value, ast.Name) and f.value.id not in st.env:
            g = ex.repo.lookup(ex.f.module.name, f.value.id)
            if isinstance(g, tuple) and g[0] == 'module':
                return call_extern(ex, '%s.%s' % (g[1], f.attr), e, st)
            if isinstance(g, ClassInfo):
                # Class.method(self, ...) explicit call
                m = ex.repo.find_method(g, f.attr)
                if m is not None:
                    args = [ex.ev(a, st) for a in e.args]
                    if m.is_classmethod or m.is_staticmethod:
                        return call_function(ex, m, None, args, kwargs_of(e), e, st)
                    return call_function(ex, m, args[0], args[1:], kwargs_of(e), e, st)
        recv = ex.ev(f.value, st)
        return call_method(ex, recv, f.attr, e, st)
    if isinstance(f, ast.Call) or isinstance(f, ast.Subscript):
        callee = ex.ev(f, st)
        return call_value(ex, callee, e, st)
    raise OutOfSubset('call form (line %d)' % e.lineno)


# ----------------------------------------------------------------------------- spec functions
def sp_old(ex, e, st):
    old = getattr(ex, 'old_state', None)
    if old is None:
        raise OutOfSubset('old() without a pre-state')
    view = State()
    view.env = dict(st.env)
    view.env.update({k: v for k, v in old.env.items() if k in st.env or True})
    view.heap = old.heap
    view.pc = st.pc       # assumptions discovered while reading the old heap are still facts
    view.alloc = old.alloc
    return ex.ev(e.args[0], view)


def sp_before_loop(ex, e, st):
    pre = getattr(ex, 'loop_pre_state', None)
    if pre is None:
        raise OutOfSubset('before_loop() outside a loop invariant')
    view = State()
    view.env = dict(st.env)
    view.env.update(pre.env)
    view.heap = pre.heap
    view.pc = st.pc
    view.alloc = pre.alloc
    return ex.ev(e.args[0], view)


def sp_implies(ex, e, st):
    a = ex.truthy(st, ex.ev(e.args[0], st))
    b = ex.truthy(st, ex.ev(e.args[1], st))
    return Val(mk_b(z3.Implies(a, b)), 'bool')


def sp_iff(ex, e, st):
    a = ex.truthy(st, ex.ev(e.args[0], st))
    b = ex.truthy(st, ex.ev(e.args[1], st))
    return Val(mk_b(a == b), 'bool')


def sp_forall(ex, e, st, exists=False):
    # forall(i, lo, hi, body)   i ranges over ints lo <= i < hi
    var = e.args[0].id
    zi = z3.Int(fresh_name(var))
    lo = iv(ex.ev(e.args[1], st).t)
    hi = iv(ex.ev(e.args[2], st).t)
    saved = ex.ghost_env
    ex.ghost_env = dict(saved)
    ex.ghost_env[var] = Val(mk_i(zi), 'int')
    try:
        body = ex.truthy(st, ex.ev(e.args[3], st))
    finally:
        ex.ghost_env = saved
    rng = z3.And(lo <= zi, zi < hi)
    if exists:
        return Val(mk_b(z3.Exists([zi], z3.And(rng, body))), 'bool')
    return Val(mk_b(z3.ForAll([zi], z3.Implies(rng, body))), 'bool')


def sp_exists(ex, e, st):
    return sp_forall(ex, e, st, exists=True)


def sp_forall_v(ex, e, st):
    # forall_v(x, body): x ranges over all values
    var = e.args[0].id
    zx = z3.Const(fresh_name(var), V)
    saved = ex.ghost_env
    ex.ghost_env = dict(saved)
    ex.ghost_env[var] = Val(zx, None)
    try:
        body = ex.truthy(st, ex.ev(e.args[1], st))
    finally:
        ex.ghost_env = saved
    return Val(mk_b(z3.ForAll([zx], body)), 'bool')


def sp_fresh(ex, e, st):
    v = ex.ev(e.args[0], st)
    old = getattr(ex, 'old_state', None)
    base = old.alloc if old is not None else ex.entry.alloc
    return Val(mk_b(z3.And(is_r(v.t), rv(v.t) >= base)), 'bool')


def sp_heapobj(ex, e, st):
    # heapobj(x): a dynamically allocated object (not a class-level / module-level static one)
    v = ex.ev(e.args[0], st)
    return Val(mk_b(z3.And(is_r(v.t), rv(v.t) >= 0)), 'bool')


def sp_hashable(ex, e, st):
    v = ex.ev(e.args[0], st)
    return Val(mk_b(hash_ok(v.t)), 'bool')


def sp_typeis(ex, e, st):
    # typeis(x, 'list') / typeis(x, 'obj:yaml.nodes.ScalarNode')
    v = ex.ev(e.args[0], st)
    return Val(mk_b(ex.type_pred(e.args[1].value, v.t, st)), 'bool')


def sp_exact(ex, e, st):
    # exact(x, 'yaml.nodes.ScalarNode'): type(x) is exactly that class
    v = ex.ev(e.args[0], st)
    return Val(mk_b(z3.And(is_r(v.t), typ(rv(v.t)) == ex.w.class_id(e.args[1].value))), 'bool')


def sp_seq(ex, e, st):
    v = ex.ev(e.args[0], st)
    return Val(ex.seq_of(st, v), 'seq')


def sp_keys(ex, e, st):
    v = ex.ev(e.args[0], st)
    return Val(z3.Select(ex.harr(st, '$dkeys'), rv(v.t)), 'seq')


def sp_haskey(ex, e, st):
    d = ex.ev(e.args[0], st)
    k = ex.ev(e.args[1], st)
    return Val(mk_b(z3.Select(z3.Select(ex.harr(st, '$dhas'), rv(d.t)), k.t)), 'bool')


def sp_dget(ex, e, st):
    d = ex.ev(e.args[0], st)
    k = ex.ev(e.args[1], st)
    return Val(z3.Select(z3.Select(ex.harr(st, '$dval'), rv(d.t)), k.t), None)


def sp_func(ex, e, st):
    # func('name'): the static value of self.<name> as a bound method
    return Val(mk_r(ex.w.static('method:' + e.args[0].value)), 'func')


def sp_as(ex, e, st):
    # as_(x, 'obj:...') : same value with a static type hint (spec only)
    v = ex.ev(e.args[0], st)
    return Val(v.t, e.args[1].value, elems='cast')


def sp_charcode(ex, e, st):
    v = ex.ev(e.args[0], st)
    return Val(mk_i(z3.StrToCode(sv(v.t))), 'int')


def static_class_of(ex, v):
    n = ex._const_int(rv(v.t))
    nm = ex.w.static_names.get(n, '') if n is not None else ''
    if nm.startswith('class:'):
        return ex.repo.cls(nm[6:])
    return None


def sp_isinst_any(ex, e, st):
    # isinst_any(x, choices): x is an instance of one of the classes in the tuple display `choices`
    v = ex.ev(e.args[0], st)
    ch = ex.ev(e.args[1], st)
    if ch.elems is None:
        raise OutOfSubset('isinst_any needs a literal tuple of classes')
    alts = []
    for c in ch.elems:
        ci = static_class_of(ex, c)
        if ci is None:
            raise OutOfSubset('isinst_any: not a library class')
        alts.append(z3.And(is_r(v.t), z3.Or(*[typ(rv(v.t)) == i for i in ex.w.subclass_ids(ci)])))
    return Val(mk_b(z3.Or(*alts) if alts else z3.BoolVal(False)), 'bool')


SPEC_FUNCS = {'before_loop': sp_before_loop, 'hashable': sp_hashable, 'heapobj': sp_heapobj, 'isinst_any': sp_isinst_any, 'old': sp_old, 'implies': sp_implies, 'iff': sp_iff, 'forall': sp_forall, 'exists': sp_exists,
              'forall_v': sp_forall_v, 'fresh': sp_fresh, 'typeis': sp_typeis, 'exact': sp_exact,
              'seq': sp_seq, 'keys': sp_keys, 'haskey': sp_haskey, 'dget': sp_dget, 'func': sp_func,
              'as_': sp_as, 'code': sp_charcode}


def expand_macro(ex, name, e, st):
    params, body = REG.macros[name]
    args = [ex.ev(a, st) for a in e.args]
    if callable(body):
        return body(ex, st, *args)
    if len(args) != len(params):
        raise OutOfSubset('macro %s arity' % name)
    saved = ex.ghost_env
    ex.ghost_env = dict(saved)
    ex.ghost_env.update(dict(zip(params, args)))
    # macro parameters shadow the environment
    view = State()
    view.env = {k: v for k, v in st.env.items() if k not in params}
    view.heap, view.pc, view.alloc = st.heap, st.pc, st.alloc
    try:
        from .symex import parse_spec
        return ex.ev(parse_spec(body), view)
    finally:
        ex.ghost_env = saved


# ----------------------------------------------------------------------------- builtin functions
def b_len(ex, e, st):
    v = ex.ev(e.args[0], st)
    used('len')
    if v.ty == 'seq':
        return Val(mk_i(z3.Length(v.t)), 'int')
    if ex.is_strlike(v):
        return Val(mk_i(z3.Length(sv(v.t))), 'int')
    if v.ty == 'bytes':
        return Val(mk_i(z3.Length(yv(v.t))), 'int')
    if v.ty in ('list', 'tuple'):
        return Val(mk_i(z3.Length(ex.seq_of(st, v))), 'int')
    if v.ty in ('dict', 'set'):
        return Val(mk_i(z3.Length(z3.Select(ex.harr(st, '$dkeys'), rv(v.t)))), 'int')
    if v.ty is None:
        isl = z3.And(is_r(v.t), z3.Or(typ(rv(v.t)) == 1, typ(rv(v.t)) == 3))
        isd = z3.And(is_r(v.t), z3.Or(typ(rv(v.t)) == 2, typ(rv(v.t)) == 4))
        ok = z3.Or(is_s(v.t), is_y(v.t), isl, isd)
        ex.raise_if(st, z3.Not(ok), 'TypeError', 'safe/type-len', e)
        n = z3.If(is_s(v.t), z3.Length(sv(v.t)), z3.If(is_y(v.t), z3.Length(yv(v.t)),
                  z3.If(isl, z3.Length(ex.seq_of(st, v.t)),
                        z3.Length(z3.Select(ex.harr(st, '$dkeys'), rv(v.t))))))
        return Val(mk_i(n), 'int')
    raise OutOfSubset('len of %s' % v.ty)


def class_pred(ex, v, cnode, st):
    """isinstance(v, cnode) as a z3 Bool"""
    if isinstance(cnode, ast.Tuple):
        return z3.Or(*[class_pred(ex, v, c, st) for c in cnode.elts])
    if isinstance(cnode, ast.Name):
        n = cnode.id
        g = ex.repo.lookup(ex.f.module.name, n)
        if isinstance(g, ClassInfo):
            ids = ex.w.subclass_ids(g)
            return z3.And(is_r(v.t), z3.Or(*[typ(rv(v.t)) == i for i in ids]))
        if n == 'str':
            return is_s(v.t)
        if n == 'bytes':
            return is_y(v.t)
        if n == 'int':
            return z3.Or(is_i(v.t), is_b(v.t))
        if n == 'bool':
            return is_b(v.t)
        if n == 'float':
            return is_fl(v.t)
        if n in ('list', 'dict', 'tuple', 'set'):
            return z3.And(is_r(v.t), typ(rv(v.t)) == BUILTIN_TYPES[n])
    if isinstance(cnode, ast.Attribute):
        q = ast.unparse(cnode)
        if q == 'collections.abc.Hashable':
            used('isinstance(x, Hashable): false exactly for list/dict/set objects (library and user classes are assumed hashable)')
            return isinstance_hashable(v.t)
        return z3.And(is_r(v.t), typ(rv(v.t)) == ex.w.class_id(q))
    raise OutOfSubset('isinstance against %s' % ast.unparse(cnode))


def isinstance_hashable(t):
    return z3.Or(z3.Not(is_r(t)), z3.And(typ(rv(t)) != 1, typ(rv(t)) != 2, typ(rv(t)) != 4))


tuple_hash_ok = z3.Function('tuple_hash_ok', z3.IntSort(), z3.BoolSort())    # hash(t) succeeds for the tuple object t (depends on its elements)


def hash_ok(t):
    """hash(v) does not raise: scalars always, list/dict/set never, tuples iff their elements hash"""
    return z3.Or(z3.Not(is_r(t)), z3.And(typ(rv(t)) != 1, typ(rv(t)) != 2, typ(rv(t)) != 4, z3.Or(typ(rv(t)) != 3, tuple_hash_ok(rv(t)))))


def b_isinstance(ex, e, st):
    v = ex.ev(e.args[0], st)
    used('isinstance')
    return Val(mk_b(class_pred(ex, v, e.args[1], st)), 'bool')


def b_ord(ex, e, st):
    v = ex.ev(e.args[0], st)
    used('ord')
    ex.need_type(st, v, is_s, 'ord', e)
    ex.raise_if(st, z3.Length(sv(v.t)) != 1, 'TypeError', 'safe/ord-len', e)
    return Val(mk_i(z3.StrToCode(sv(v.t))), 'int')


def b_chr(ex, e, st):
    v = ex.ev(e.args[0], st)
    used('chr')
    ex.need_type(st, v, is_i, 'chr', e)
    n = iv(v.t)
    ex.raise_if(st, z3.Or(n < 0, n > 0x10FFFF), 'ValueError', 'safe/chr-range', e)
    ch = z3.Function('py_chr', z3.IntSort(), z3.StringSort())
    r = ch(n)
    st.assume(z3.Length(r) == 1)
    st.assume(z3.Implies(n < 0x2FFFE, z3.StrToCode(r) == n))
    return Val(mk_s(r), 'char')


def b_int(ex, e, st):
    used('int')
    if len(e.args) == 1:
        v = ex.ev(e.args[0], st)
        if v.ty == 'int':
            return v
        base = z3.IntVal(10)
    else:
        v = ex.ev(e.args[0], st)
        b = ex.ev(e.args[1], st)
        base = iv(b.t)
    ex.need_type(st, v, is_s, 'int-arg', e)
    ok = z3.Function('int_parse_ok', z3.StringSort(), z3.IntSort(), z3.BoolSort())
    val = z3.Function('int_parse', z3.StringSort(), z3.IntSort(), z3.IntSort())
    s_ = sv(v.t)
    # necessary condition for success that the contracts can use: the text is non-empty
    st.assume(z3.Implies(ok(s_, base), z3.Length(s_) > 0))
    # sufficient condition: 1..4300 ASCII digits of the base (base 10 only digits 0-9)
    digits10 = z3.InRe(s_, z3.Loop(z3.Range('0', '9'), 1, 4300))
    st.assume(z3.Implies(z3.And(base == 10, digits10), ok(s_, base)))
    st.assume(z3.Implies(z3.And(base == 10, digits10), val(s_, base) >= 0))
    st.assume(z3.Implies(z3.And(base == 10, z3.InRe(s_, z3.Plus(z3.Range('0', '9')))), val(s_, base) >= 0))
    # a single decimal digit denotes its digit value
    st.assume(z3.Implies(z3.And(base == 10, z3.Length(s_) == 1, digits10), val(s_, base) == z3.StrToCode(s_) - 48))
    # the same sufficient condition character by character (what a checking loop establishes), bases 2, 8, 10, 16:
    # a non-empty text all of whose characters are digits of the base parses (base 10: at most 4300 digits, CPython >= 3.11)
    j = z3.Int(fresh_name('dj'))
    c = lambda i: z3.StrToCode(z3.SubString(s_, i, 1))
    dec = lambda i: z3.And(c(i) >= 48, c(i) <= 57)
    isdig = lambda i: z3.If(base == 16, z3.Or(dec(i), z3.And(c(i) >= 65, c(i) <= 70), z3.And(c(i) >= 97, c(i) <= 102)),
                            z3.If(base == 8, z3.And(c(i) >= 48, c(i) <= 55), z3.If(base == 2, z3.And(c(i) >= 48, c(i) <= 49), dec(i))))
    alldig = z3.ForAll([j], z3.Implies(z3.And(0 <= j, j < z3.Length(s_)), isdig(j)))
    st.assume(z3.Implies(z3.And(z3.Or(base == 2, base == 8, base == 10, base == 16), z3.Length(s_) >= 1, z3.Implies(base == 10, z3.Length(s_) <= 4300), alldig),
                         z3.And(ok(s_, base), val(s_, base) >= 0)))
    # the fixed-length escape forms (\\xXX, \\uXXXX, \\UXXXXXXXX, %XX): stated digit by digit, no quantifier
    for n_ in (1, 2, 4, 8):
        digs = z3.And(*[isdig(z3.IntVal(k)) for k in range(n_)])
        st.assume(z3.Implies(z3.And(base == 16, z3.Length(s_) == n_, digs), z3.And(ok(s_, base), val(s_, base) >= 0, val(s_, base) < 16 ** n_)))
    ex.raise_if(st, z3.Not(ok(s_, base)), 'ValueError', 'safe/int-parse', e)
    return Val(mk_i(val(s_, base)), 'int')


def b_str(ex, e, st):
    used('str')
    v = ex.ev(e.args[0], st)
    if ex.is_strlike(v):
        return v
    f = z3.Function('py_str', V, z3.StringSort())
    r = f(v.t)
    # str(int) is an optional minus sign followed by decimal digits (assumed built-in contract)
    st.assume(z3.Implies(is_i(v.t), z3.InRe(r, z3.Concat(z3.Option(z3.Re('-')), z3.Plus(z3.Range('0', '9'))))))
    return Val(mk_s(r), 'str')


def b_bool(ex, e, st):
    v = ex.ev(e.args[0], st)
    return Val(mk_b(ex.truthy(st, v)), 'bool')


def b_list(ex, e, st):
    used('list')
    if not e.args:
        return ex.new_list(st, z3.Empty(SeqV), 'list')
    v = ex.ev(e.args[0], st)
    if v.ty in ('list', 'tuple'):
        return ex.new_list(st, ex.seq_of(st, v), 'list')
    if v.ty in ('dict', 'set'):
        q = z3.Select(ex.harr(st, '$dkeys'), rv(v.t))
        has = z3.Select(ex.harr(st, '$dhas'), rv(v.t))
        # a dict's key order lists exactly its keys, each once (dict well-formedness, assumed of every dict object)
        i, j = z3.Int(fresh_name('ki')), z3.Int(fresh_name('kj'))
        st.assume(z3.ForAll([i], z3.Implies(z3.And(0 <= i, i < z3.Length(q)), z3.Select(has, q[i]))))
        st.assume(z3.ForAll([i, j], z3.Implies(z3.And(0 <= i, i < j, j < z3.Length(q)), q[i] != q[j])))
        return ex.new_list(st, q, 'list')
    raise OutOfSubset('list() of %s' % v.ty)


def b_tuple(ex, e, st):
    if not e.args:
        return ex.new_list(st, z3.Empty(SeqV), 'tuple')
    v = ex.ev(e.args[0], st)
    if v.ty in ('list', 'tuple'):
        return ex.new_list(st, ex.seq_of(st, v), 'tuple')
    raise OutOfSubset('tuple() of %s' % v.ty)


def b_dict(ex, e, st):
    if e.args or e.keywords:
        raise OutOfSubset('dict(args)')
    return ex.new_dict(st)


def b_set(ex, e, st):
    if e.args or e.keywords:
        raise OutOfSubset('set(args)')
    r = ex.new_obj(st, 'set')
    st.heap['$dhas'] = z3.Store(ex.harr(st, '$dhas'), rv(r), z3.K(V, z3.BoolVal(False)))
    st.heap['$dkeys'] = z3.Store(ex.harr(st, '$dkeys'), rv(r), z3.Empty(SeqV))
    return Val(r, 'set')


def b_getattr(ex, e, st):
    used('getattr')
    recv = ex.ev(e.args[0], st)
    nm = e.args[1]
    if isinstance(nm, ast.Constant) and isinstance(nm.value, str):
        arr = ex.harr(st, 'f:' + nm.value)
        if len(e.args) == 3:
            d = ex.ev(e.args[2], st)
            hasf = z3.Function('has_attr_' + nm.value, z3.IntSort(), z3.BoolSort())
            ok = z3.And(is_r(recv.t), hasf(rv(recv.t)))
            return Val(z3.If(ok, z3.Select(arr, rv(recv.t)), d.t), None)
        return ex.get_field(st, recv, nm.value, e)
    raise OutOfSubset('getattr with a computed name (line %d)' % e.lineno)


def b_hasattr(ex, e, st):
    used('hasattr')
    recv = ex.ev(e.args[0], st)
    nm = e.args[1]
    if isinstance(nm, ast.Constant):
        hasf = z3.Function('has_attr_' + nm.value, z3.IntSort(), z3.BoolSort())
        return Val(mk_b(z3.And(is_r(recv.t), hasf(rv(recv.t)))), 'bool')
    raise OutOfSubset('hasattr with a computed name')


def b_max(ex, e, st, is_max=True):
    a = ex.ev(e.args[0], st)
    b = ex.ev(e.args[1], st)
    ex.need_type(st, a, is_i, 'max', e)
    ex.need_type(st, b, is_i, 'max', e)
    x, y = iv(a.t), iv(b.t)
    return Val(mk_i(z3.If((x >= y) if is_max else (x <= y), x, y)), 'int')


def b_min(ex, e, st):
    return b_max(ex, e, st, False)


def b_id(ex, e, st):
    used('id')
    v = ex.ev(e.args[0], st)
    f = z3.Function('py_id', V, z3.IntSort())
    return Val(mk_i(f(v.t)), 'int')


def b_hash(ex, e, st):
    used('hash: raises TypeError exactly for list/dict/set objects and for tuples that contain one')
    v = ex.ev(e.args[0], st)
    ex.raise_if(st, z3.Not(hash_ok(v.t)), 'TypeError', 'safe/hash', e)
    f = z3.Function('py_hash', V, z3.IntSort())
    return Val(mk_i(f(v.t)), 'int')


def b_float(ex, e, st):
    used('float(str): ValueError unless the text is a float literal (language not modelled); value opaque')
    v = ex.ev(e.args[0], st)
    if v.ty == 'float':
        return v
    if v.ty == 'int':
        f = z3.Function('float_of_int', z3.IntSort(), z3.IntSort())
        return Val(V.fl(f(iv(v.t))), 'float')
    ex.need_type(st, v, is_s, 'float-arg', e)
    ok = z3.Function('float_parse_ok', z3.StringSort(), z3.BoolSort())
    val = z3.Function('float_parse', z3.StringSort(), z3.IntSort())
    ex.raise_if(st, z3.Not(ok(sv(v.t))), 'ValueError', 'safe/float-parse', e)
    return Val(V.fl(val(sv(v.t))), 'float')


def b_bytes(ex, e, st):
    used('bytes(list of ints): ValueError unless every element is in range(256)')
    v = ex.ev(e.args[0], st)
    if v.ty not in ('list', 'tuple'):
        raise OutOfSubset('bytes() of %s' % v.ty)
    q = ex.seq_of(st, v)
    j = z3.Int(fresh_name('bj'))
    okb = z3.ForAll([j], z3.Implies(z3.And(0 <= j, j < z3.Length(q)), z3.And(is_i(q[j]), iv(q[j]) >= 0, iv(q[j]) <= 255)))
    ex.raise_if(st, z3.Not(okb), 'ValueError', 'safe/bytes-range', e)
    f = z3.Function('py_bytes', SeqV, z3.StringSort())
    r = f(q)
    st.assume(z3.Length(r) == z3.Length(q))
    return Val(mk_y(r), 'bytes')


def b_type(ex, e, st):
    v = ex.ev(e.args[0], st)
    f = z3.Function('py_type', V, V)
    return Val(f(v.t), 'type')


def b_repr(ex, e, st):
    v = ex.ev(e.args[0], st)
    f = z3.Function('py_repr', V, z3.StringSort())
    return Val(mk_s(f(v.t)), 'str')


def b_sorted(ex, e, st):
    used('sorted: a new list, a permutation of the iterable (only: same length, same members); raises TypeError for unorderable elements')
    if len(e.args) != 1 or e.keywords:
        raise OutOfSubset('sorted() with key/reverse')
    v = ex.ev(e.args[0], st)
    if v.ty in ('dict', 'set'):
        q = z3.Select(ex.harr(st, '$dkeys'), rv(v.t))
    elif v.ty in ('list', 'tuple'):
        q = ex.seq_of(st, v)
    else:
        raise OutOfSubset('sorted() of %s' % v.ty)
    ex.raise_if(st, z3.Not(SORTABLE(q)), 'TypeError', 'safe/sorted-comparable', e)
    r = z3.Const(fresh_name('sorted'), SeqV)
    i = z3.Int(fresh_name('si'))
    st.assume(z3.Length(r) == z3.Length(q))
    st.assume(z3.ForAll([i], z3.Implies(z3.And(0 <= i, i < z3.Length(r)), z3.Contains(q, z3.Unit(r[i]))), patterns=[r[i]]))
    if v.ty in ('dict', 'set'):
        has = z3.Select(ex.harr(st, '$dhas'), rv(v.t))
        st.assume(z3.ForAll([i], z3.Implies(z3.And(0 <= i, i < z3.Length(r)), z3.Select(has, r[i])), patterns=[r[i]]))
    return ex.new_list(st, r, 'list')


SORTABLE = z3.Function('sortable', SeqV, z3.BoolSort())     # the elements are mutually comparable (sorted() does not raise TypeError)


def sp_sortable_keys(ex, e, st):
    d = ex.ev(e.args[0], st)
    return Val(mk_b(SORTABLE(z3.Select(ex.harr(st, '$dkeys'), rv(d.t)))), 'bool')


def sp_printable(ex, e, st):
    # printable(ch): the YAML printable set, written from the YAML 1.1 specification (c-printable)
    v = ex.ev(e.args[0], st)
    c = z3.StrToCode(sv(v.t))
    from .symex import squash_char as q
    ok = z3.Or(c == 9, c == 10, c == 13, z3.And(c >= 0x20, c <= 0x7E), c == 0x85, z3.And(c >= 0xA0, c <= 0xD7FF), z3.And(c >= 0xE000, c <= 0xFFFD),
               z3.And(c >= q(0x10000), c <= q(0x10FFFF)))
    return Val(mk_b(ok), 'bool')


def sp_uniprintable(ex, e, st):
    # uniprintable(ch): a non-ASCII character the emitter may write raw when allow_unicode is on (YAML printable, not the BOM)
    v = ex.ev(e.args[0], st)
    c = z3.StrToCode(sv(v.t))
    from .symex import squash_char as q
    ok = z3.And(z3.Or(c == 0x85, z3.And(c >= 0xA0, c <= 0xD7FF), z3.And(c >= 0xE000, c <= 0xFFFD), z3.And(c >= q(0x10000), c < q(0x10FFFF))), c != 0xFEFF)
    return Val(mk_b(ok), 'bool')


NOBREAKS = z3.Function('str_nobreaks', z3.StringSort(), z3.BoolSort())     # the text contains no line break character (\\n, NEL, LS, PS)


def sp_nobreaks(ex, e, st):
    v = ex.ev(e.args[0], st)
    return Val(mk_b(NOBREAKS(sv(v.t))), 'bool')


def sp_prefix_of(ex, e, st):
    a = ex.ev(e.args[0], st)
    b = ex.ev(e.args[1], st)
    sa, sb = ex.seq_of(st, a), ex.seq_of(st, b)
    return Val(mk_b(z3.And(z3.Length(sa) <= z3.Length(sb), sb == z3.Concat(sa, z3.Extract(sb, z3.Length(sa), z3.Length(sb) - z3.Length(sa))))), 'bool')


def sp_seq_contains(ex, e, st):
    # seq_contains(s, lo, x): x occurs in s[lo:]
    a = ex.seq_of(st, ex.ev(e.args[0], st))
    lo = iv(ex.ev(e.args[1], st).t)
    x = ex.ev(e.args[2], st)
    return Val(mk_b(z3.Contains(z3.Extract(a, lo, z3.Length(a) - lo), z3.Unit(x.t))), 'bool')


HASCHUNK = z3.Function('seq_has_chunk', SeqV, z3.IntSort(), V, z3.BoolSort())   # x occurs in s at an index >= lo (introduced only through its two lemmas)


def sp_has_chunk(ex, e, st):
    a = ex.seq_of(st, ex.ev(e.args[0], st))
    lo = iv(ex.ev(e.args[1], st).t)
    x = ex.ev(e.args[2], st)
    return Val(mk_b(HASCHUNK(a, lo, x.t)), 'bool')


def has_chunk_lemmas(cx=None):
    """the two facts about `x occurs in s[lo:]` that the contracts use: the last element occurs; occurrence survives appending"""
    s_, t_ = z3.Const('hc_s', SeqV), z3.Const('hc_t', SeqV)
    lo, x = z3.Int('hc_lo'), z3.Const('hc_x', V)
    n = z3.Length(s_)
    last = z3.ForAll([s_, lo, x], z3.Implies(z3.And(0 <= lo, lo < n, s_[n - 1] == x), HASCHUNK(s_, lo, x)), patterns=[HASCHUNK(s_, lo, x)])
    pre = z3.And(z3.Length(s_) <= z3.Length(t_), t_ == z3.Concat(s_, z3.Extract(t_, z3.Length(s_), z3.Length(t_) - z3.Length(s_))))
    mono = z3.ForAll([s_, t_, lo, x], z3.Implies(z3.And(HASCHUNK(s_, lo, x), pre), HASCHUNK(t_, lo, x)), patterns=[z3.MultiPattern(HASCHUNK(s_, lo, x), HASCHUNK(t_, lo, x))])
    return z3.And(last, mono)


has_chunk_lemmas.__name__ = 'lemmas (valid for "x occurs in s[lo:]", not machine-checked): the last element occurs; occurrence survives appending'

SPEC_FUNCS.update({'has_chunk': sp_has_chunk, 'nobreaks': sp_nobreaks, 'uniprintable': sp_uniprintable, 'printable': sp_printable, 'sortable_keys': sp_sortable_keys, 'prefix_of': sp_prefix_of, 'seq_contains': sp_seq_contains})


def b_next(ex, e, st):
    key = ('next', ex.f.qual)
    if key not in REG.externs:
        raise OutOfSubset('next() without an assumed generator contract (line %d)' % e.lineno)
    args = [ex.ev(a, st) for a in e.args]
    return apply_contract(ex, REG.externs[key], None, st.env.get('self'), args[1:], {}, e, st, pnames=None, extra_env={'callee': args[0]})


BUILTIN_FUNCS = {'float': b_float, 'bytes': b_bytes, 'hash': b_hash, 'sorted': b_sorted, 'next': b_next, 'len': b_len, 'isinstance': b_isinstance, 'ord': b_ord, 'chr': b_chr, 'int': b_int, 'str': b_str,
                 'bool': b_bool, 'list': b_list, 'tuple': b_tuple, 'dict': b_dict, 'set': b_set, 'getattr': b_getattr,
                 'hasattr': b_hasattr, 'max': b_max, 'min': b_min, 'id': b_id, 'type': b_type, 'repr': b_repr}


# ----------------------------------------------------------------------------- methods on built-in types
def m_list(ex, recv, name, e, st):
    q = ex.seq_of(st, recv)
    args = [ex.ev(a, st) for a in e.args]
    used('list.' + name)
    if name == 'append':
        nq = z3.Concat(q, z3.Unit(args[0].t))
        # element-wise reading of the appended list (valid sequence facts, stated so that index-quantified invariants instantiate)
        k = z3.Int(fresh_name('ak'))
        st.assume(z3.ForAll([k], z3.Implies(z3.And(0 <= k, k < z3.Length(q)), nq[k] == q[k])))
        st.assume(z3.And(nq[z3.Length(q)] == args[0].t, z3.Length(nq) == z3.Length(q) + 1))
        ex.set_seq(st, recv, nq)
        return Val(NONE, 'none')
    if name == 'extend':
        ex.set_seq(st, recv, z3.Concat(q, ex.seq_of(st, args[0])))
        return Val(NONE, 'none')
    if name == 'pop':
        n = z3.Length(q)
        if args:
            ex.need_type(st, args[0], is_i, 'pop', e)
            i = iv(args[0].t)
            ex.raise_if(st, z3.Or(n == 0, i >= n, i < -n), 'IndexError', 'safe/pop', e)
            j = z3.If(i < 0, i + n, i)
        else:
            ex.raise_if(st, n == 0, 'IndexError', 'safe/pop', e)
            j = n - 1
        t = q[j]
        if not args:
            # valid lemma (n >= 1 on this path): the list is its prefix plus the popped element
            st.assume(q == z3.Concat(z3.Extract(q, 0, n - 1), z3.Unit(t)))
            pq = z3.Extract(q, 0, n - 1)
            k = z3.Int(fresh_name('pk'))
            st.assume(z3.ForAll([k], z3.Implies(z3.And(0 <= k, k < n - 1), pq[k] == q[k])))
            st.assume(z3.Length(pq) == n - 1)
            ex.set_seq(st, recv, pq)
        else:
            ex.set_seq(st, recv, z3.Concat(z3.Extract(q, 0, j), z3.Extract(q, j + 1, n - j - 1)))
        ex.assume_allocated(st, t)
        return Val(t, None)
    if name == 'insert':
        ex.need_type(st, args[0], is_i, 'insert', e)
        n = z3.Length(q)
        i = iv(args[0].t)
        j = z3.If(i < 0, z3.If(i + n < 0, 0, i + n), z3.If(i > n, n, i))
        ex.set_seq(st, recv, z3.Concat(z3.Extract(q, 0, j), z3.Unit(args[1].t), z3.Extract(q, j, n - j)))
        return Val(NONE, 'none')
    if name == 'reverse':
        n = z3.Length(q)
        r = z3.Const(fresh_name('rev'), SeqV)
        k = z3.Int(fresh_name('k'))
        st.assume(z3.Length(r) == n)
        st.assume(z3.ForAll([k], z3.Implies(z3.And(0 <= k, k < n), r[k] == q[n - 1 - k])))
        ex.set_seq(st, recv, r)
        return Val(NONE, 'none')
    if name == 'copy':
        return ex.new_list(st, q, 'list')
    if name == 'index':
        idx = z3.Int(fresh_name('idx'))
        ex.raise_if(st, z3.Not(z3.Contains(q, z3.Unit(args[0].t))), 'ValueError', 'safe/list-index', e)
        st.assume(z3.And(0 <= idx, idx < z3.Length(q), q[idx] == args[0].t))
        return Val(mk_i(idx), 'int')
    raise OutOfSubset('list.%s' % name)


def m_dict(ex, recv, name, e, st):
    ref = rv(recv.t)
    has = z3.Select(ex.harr(st, '$dhas'), ref)
    val = z3.Select(ex.harr(st, '$dval'), ref)
    keys = z3.Select(ex.harr(st, '$dkeys'), ref)
    args = [ex.ev(a, st) for a in e.args]
    used('dict.' + name)
    if name == 'get':
        d = args[1].t if len(args) > 1 else NONE
        t = z3.If(z3.Select(has, args[0].t), z3.Select(val, args[0].t), d)
        ex.assume_allocated(st, t)
        return Val(t, None)
    if name == 'copy':
        d = ex.new_dict(st)
        r2 = rv(d.t)
        st.heap['$dhas'] = z3.Store(ex.harr(st, '$dhas'), r2, has)
        st.heap['$dval'] = z3.Store(ex.harr(st, '$dval'), r2, val)
        st.heap['$dkeys'] = z3.Store(ex.harr(st, '$dkeys'), r2, keys)
        return d
    if name in ('keys', 'values', 'items'):
        if name == 'keys':
            return Val(recv.t, 'dict')     # iteration over d.keys() == iteration over d
        raise OutOfSubset('dict.%s as a value' % name)
    if name == 'update':
        # d.update(d2) / s.update(d2) for a dict (or set) argument: membership is the union, values of d2 win; the order sequence
        # is only bounded (old keys stay, at most the keys of d2 are added)
        if len(args) != 1 or e.keywords or args[0].ty not in ('dict', 'set'):
            raise OutOfSubset('%s.update with an argument that is not statically a dict' % recv.ty)
        r2 = rv(args[0].t)
        has2 = z3.Select(ex.harr(st, '$dhas'), r2)
        val2 = z3.Select(ex.harr(st, '$dval'), r2)
        keys2 = z3.Select(ex.harr(st, '$dkeys'), r2)
        nh = z3.Const(fresh_name('uhas'), has.sort())
        nv = z3.Const(fresh_name('uval'), val.sort())
        nk = z3.Const(fresh_name('ukeys'), SeqV)
        k = z3.Const(fresh_name('uk'), V)
        st.assume(z3.ForAll([k], z3.Select(nh, k) == z3.Or(z3.Select(has, k), z3.Select(has2, k)), patterns=[z3.Select(nh, k)]))
        st.assume(z3.ForAll([k], z3.Select(nv, k) == z3.If(z3.Select(has2, k), z3.Select(val2, k), z3.Select(val, k)), patterns=[z3.Select(nv, k)]))
        st.assume(z3.And(z3.Length(nk) >= z3.Length(keys), z3.Length(nk) <= z3.Length(keys) + z3.Length(keys2)))
        st.heap['$dhas'] = z3.Store(ex.harr(st, '$dhas'), ref, nh)
        st.heap['$dval'] = z3.Store(ex.harr(st, '$dval'), ref, nv)
        st.heap['$dkeys'] = z3.Store(ex.harr(st, '$dkeys'), ref, nk)
        return Val(NONE, 'none')
    if name == 'pop':
        hask = z3.Select(has, args[0].t)
        if len(args) == 1:
            ex.raise_if(st, z3.Not(hask), 'KeyError', 'safe/dict-pop', e)
            t = z3.Select(val, args[0].t)
        else:
            t = z3.If(hask, z3.Select(val, args[0].t), args[1].t)
        dict_del(ex, st, recv, args[0])
        return Val(t, None)
    if name == 'setdefault':
        hask = z3.Select(has, args[0].t)
        d = args[1] if len(args) > 1 else Val(NONE, 'none')
        t = z3.If(hask, z3.Select(val, args[0].t), d.t)
        ex.dict_set(st, recv, args[0], Val(t))
        return Val(t, None)
    if name == 'clear':
        st.heap['$dhas'] = z3.Store(ex.harr(st, '$dhas'), ref, z3.K(V, z3.BoolVal(False)))
        st.heap['$dkeys'] = z3.Store(ex.harr(st, '$dkeys'), ref, z3.Empty(SeqV))
        return Val(NONE, 'none')
    raise OutOfSubset('dict.%s' % name)


def dict_del(ex, st, d, k):
    ref = rv(d.t)
    has = z3.Select(ex.harr(st, '$dhas'), ref)
    keys = z3.Select(ex.harr(st, '$dkeys'), ref)
    hask = z3.Select(has, k.t)
    nk = z3.Const(fresh_name('keys'), SeqV)
    x = z3.Const(fresh_name('x'), V)
    # the order sequence loses k: stated by membership and length only
    st.assume(z3.Implies(hask, z3.Length(nk) == z3.Length(keys) - 1))
    st.assume(z3.Implies(z3.Not(hask), nk == keys))
    st.heap['$dkeys'] = z3.Store(ex.harr(st, '$dkeys'), ref, nk)
    st.heap['$dhas'] = z3.Store(ex.harr(st, '$dhas'), ref, z3.Store(has, k.t, False))


def m_str(ex, recv, name, e, st):
    s_ = sv(recv.t)
    args = [ex.ev(a, st) for a in e.args]
    used('str.' + name)
    if name in ('startswith', 'endswith'):
        a = args[0]
        if a.ty == 'tuple':
            raise OutOfSubset('startswith(tuple)')
        ex.need_type(st, a, is_s, name, e)
        c = z3.PrefixOf(sv(a.t), s_) if name == 'startswith' else z3.SuffixOf(sv(a.t), s_)
        return Val(mk_b(c), 'bool')
    if name in ('lower', 'upper', 'strip', 'lstrip', 'rstrip', 'capitalize', 'title'):
        f = z3.Function('str_' + name, z3.StringSort(), z3.StringSort())
        r = f(s_)
        if name in ('lower', 'upper'):
            st.assume(z3.Implies(z3.InRe(s_, z3.Star(z3.Union(z3.Range(' ', '~')))), z3.Length(r) == z3.Length(s_)))
        return Val(mk_s(r), 'str')
    if name == 'replace':
        a, b = args[0], args[1]
        return Val(mk_s(z3.Replace(s_, sv(a.t), sv(b.t)) if False else
                        z3.Function('str_replace_all', z3.StringSort(), z3.StringSort(), z3.StringSort(), z3.StringSort())(s_, sv(a.t), sv(b.t))), 'str')
    if name == 'join':
        a = args[0]
        f = z3.Function('str_join', z3.StringSort(), SeqV, z3.StringSort())
        q = ex.seq_of(st, a)
        r = f(s_, q)
        st.assume(z3.Implies(z3.Length(q) == 0, r == z3.StringVal('')))
        return Val(mk_s(r), 'str')
    if name == 'encode':
        f = z3.Function('str_encode', z3.StringSort(), V, z3.StringSort())
        enc = args[0].t if args else mk_s('utf-8')
        okf = z3.Function('str_encode_ok', z3.StringSort(), V, z3.BoolSort())
        if args and z3.is_true(z3.simplify(z3.Or(enc == mk_s('utf-8'), enc == mk_s('utf8')))):
            used("str.encode('utf-8') is total (strings hold no lone surrogates: assumption A-no-surrogates)")
        else:
            ex.raise_if(st, z3.Not(okf(s_, enc)), 'UnicodeEncodeError', 'safe/encode', e)
        return Val(mk_y(f(s_, enc)), 'bytes')
    if name == 'split':
        f = z3.Function('str_split', z3.StringSort(), SeqV, SeqV)
        r = f(s_, ex.seq_lit(args))
        k = z3.Int(fresh_name('sk'))
        # str.split returns a non-empty list of strings (contents uninterpreted)
        st.assume(z3.Length(r) >= 1)
        st.assume(z3.ForAll([k], z3.Implies(z3.And(0 <= k, k < z3.Length(r)), is_s(r[k]))))
        return ex.new_list(st, r, 'list')
    if name in ('isdigit', 'isalpha', 'isalnum', 'isspace', 'isupper', 'islower'):
        f = z3.Function('str_' + name, z3.StringSort(), z3.BoolSort())
        return Val(mk_b(f(s_)), 'bool')
    if name == 'find':
        return Val(mk_i(z3.IndexOf(s_, sv(args[0].t), 0)), 'int')
    raise OutOfSubset('str.%s' % name)


def m_bytes(ex, recv, name, e, st):
    s_ = yv(recv.t)
    args = [ex.ev(a, st) for a in e.args]
    used('bytes.' + name)
    if name in ('startswith', 'endswith'):
        a = args[0]
        pref = yv(a.t) if a.ty == 'bytes' else V.yv(a.t)
        return Val(mk_b(z3.PrefixOf(pref, s_) if name == 'startswith' else z3.SuffixOf(pref, s_)), 'bool')
    if name == 'decode':
        okf = z3.Function('bytes_decode_ok', z3.StringSort(), V, z3.BoolSort())
        f = z3.Function('bytes_decode', z3.StringSort(), V, z3.StringSort())
        enc = args[0].t if args else mk_s('utf-8')
        ex.raise_if(st, z3.Not(okf(s_, enc)), 'UnicodeDecodeError', 'safe/decode', e)
        return Val(mk_s(f(s_, enc)), 'str')
    raise OutOfSubset('bytes.%s' % name)


STR_METHODS = {'startswith', 'endswith', 'lower', 'upper', 'strip', 'lstrip', 'rstrip', 'replace', 'join', 'encode', 'split', 'isdigit', 'find'}


def call_method(ex, recv, name, e, st):
    ty = recv.ty
    # contracts for externals keyed by static receiver type
    if isinstance(ty, str) and (ty, name) in REG.externs:
        args = [ex.ev(a, st) for a in e.args]
        return apply_contract(ex, REG.externs[(ty, name)], None, recv, args, kwargs_of(e), e, st, pnames=None)
    if ty == 'list':
        return m_list(ex, recv, name, e, st)
    if ty == 'dict' or ty == 'set':
        if ty == 'set' and name == 'add':
            ex.dict_set(st, recv, ex.ev(e.args[0], st), Val(NONE))
            return Val(NONE, 'none')
        return m_dict(ex, recv, name, e, st)
    if ex.is_strlike(recv):
        return m_str(ex, recv, name, e, st)
    if ty == 'bytes':
        return m_bytes(ex, recv, name, e, st)
    if ty == 'tuple' and name in ('index', 'count'):
        return m_list(ex, recv, name, e, st)
    if ty is None and name in ('start', 'group', 'end') and ex.quick_unsat(st.pc, z3.Not(z3.And(is_r(recv.t), typ(rv(recv.t)) == BUILTIN_TYPES['match']))):
        return re_match_method(ex, recv, name, e, st)
    if ty is None and name in ('append', 'extend'):
        # untyped receiver (e.g. the result of dict.setdefault): a list method needs a list object
        isl = z3.And(is_r(recv.t), typ(rv(recv.t)) == 1)
        ex.raise_if(st, z3.Not(isl), 'AttributeError', 'safe/list-method-' + name, e)
        return m_list(ex, Val(recv.t, 'list'), name, e, st)
    if ty is None and name in ('keys', 'items', 'values', 'get', 'copy', 'setdefault'):
        isd = z3.And(is_r(recv.t), typ(rv(recv.t)) == 2)
        ex.raise_if(st, z3.Not(isd), 'AttributeError', 'safe/dict-method-' + name, e)
        return m_dict(ex, Val(recv.t, 'dict'), name, e, st)
    if ty is None and name in ('read', 'write', 'flush') and ('stream', name) in REG.externs:
        ok = z3.And(is_r(recv.t), typ(rv(recv.t)) == BUILTIN_TYPES['stream'])
        ex.raise_if(st, z3.Not(ok), 'AttributeError', 'safe/stream-method-' + name, e)
        args = [ex.ev(a, st) for a in e.args]
        return apply_contract(ex, REG.externs[('stream', name)], None, Val(recv.t, 'stream'), args, kwargs_of(e), e, st, pnames=None)
    if ty is None and name == 'startswith' and ex.quick_unsat(st.pc, z3.Not(is_y(recv.t))):
        return m_bytes(ex, Val(recv.t, 'bytes'), name, e, st)
    if ty == 'pattern' and name in ('search', 'match'):
        return re_search(ex, recv, name, e, st)
    if ty == 'match' and name in ('start', 'group', 'end'):
        return re_match_method(ex, recv, name, e, st)
    if ty is None and name in STR_METHODS:
        # dynamic receiver: a str method on a non-str raises AttributeError
        ex.raise_if(st, z3.Not(is_s(recv.t)), 'AttributeError', 'safe/str-method-' + name, e)
        return m_str(ex, Val(recv.t, 'str'), name, e, st)
    cls = ex.recv_class(recv)
    if cls is None and isinstance(e.func.value, ast.Name) and e.func.value.id == 'self' and ex.ctx is not None:
        cls = ex.ctx
    if cls is not None:
        m = ex.repo.find_method(cls, name)
        if m is not None:
            args = [ex.ev(a, st) for a in e.args]
            return call_function(ex, m, recv, args, kwargs_of(e), e, st)
        # a field holding a callable:  self.state()
        declared = ex.field_type(recv.ty, name)
        if declared is not None:
            callee = ex.get_field(st, recv, name, e)
            return call_value(ex, callee, e, st)
    raise OutOfSubset('method %s on receiver of static type %s (line %d)' % (name, ty, e.lineno))


def charclass_pred(src):
    """for a pattern that is ONE character class: python predicate code -> z3 Bool 'the code point is matched'; else None"""
    import re._parser as sre
    try:
        p = sre.parse(src)
    except Exception:
        return None
    if len(p) != 1:
        return None
    op, av = p[0]
    items, negate = None, False
    if str(op) == 'IN':
        items = list(av)
        if items and str(items[0][0]) == 'NEGATE':
            negate, items = True, items[1:]
    elif str(op) == 'LITERAL':
        items = [(op, av)]
    elif str(op) == 'NOT_LITERAL':
        items, negate = [('LITERAL', av)], True
    if items is None:
        return None
    from .symex import squash_char

    def pred(code):
        alts = []
        for o, a in items:
            if str(o) == 'LITERAL':
                alts.append(code == squash_char(a))
            elif str(o) == 'RANGE':
                alts.append(z3.And(code >= squash_char(a[0]), code <= squash_char(a[1])))
            else:
                return None
        r = z3.Or(*alts) if alts else z3.BoolVal(False)
        return z3.Not(r) if negate else r
    return pred


RE_START = z3.Function('re_search_start', z3.IntSort(), z3.StringSort(), z3.IntSort())    # first match position of pattern in text, -1 if none


def re_search(ex, recv, name, e, st):
    """assumed contract of Pattern.search for single-character-class patterns: the result is None when no character of the text
    is in the class, else a match object whose start() is the FIRST such position and whose group() is that character"""
    n = ex._const_int(rv(recv.t))
    src = getattr(ex.w, 'patterns', {}).get(n)
    pred = charclass_pred(src) if src is not None and name == 'search' else None
    if pred is None:
        raise OutOfSubset('re.%s on a pattern that is not a single character class (line %d)' % (name, e.lineno))
    used('re.Pattern.search (single character class %r): first position whose character is in the class' % src)
    arg = ex.ev(e.args[0], st)
    ex.need_type(st, arg, is_s, 're-search', e)
    s_ = sv(arg.t)
    r = RE_START(rv(recv.t), s_)
    j = z3.Int(fresh_name('rj'))
    code = lambda i: z3.StrToCode(z3.SubString(s_, i, 1))
    st.assume(z3.And(r >= -1, r < z3.Length(s_)))
    st.assume(z3.Implies(r >= 0, pred(code(r))))
    st.assume(z3.ForAll([j], z3.Implies(z3.And(0 <= j, j < z3.If(r >= 0, r, z3.Length(s_))), z3.Not(pred(code(j))))))
    m = ex.new_obj(st, 'match')
    st.heap['f:m_start'] = z3.Store(ex.harr(st, 'f:m_start'), rv(m), mk_i(r))
    st.heap['f:m_text'] = z3.Store(ex.harr(st, 'f:m_text'), rv(m), arg.t)
    return Val(z3.If(r >= 0, m, NONE), 'opt:match' if False else None, elems='match?')


def re_match_method(ex, recv, name, e, st):
    start = iv(z3.Select(ex.harr(st, 'f:m_start'), rv(recv.t)))
    text = sv(z3.Select(ex.harr(st, 'f:m_text'), rv(recv.t)))
    if name == 'start':
        return Val(mk_i(start), 'int')
    if name == 'end':
        return Val(mk_i(start + 1), 'int')
    return Val(mk_s(z3.SubString(text, start, 1)), 'char')


def call_value(ex, callee, e, st):
    key = ('value-call', ex.f.qual)
    if key not in REG.externs:
        key = ('value', 'call')
    if key in REG.externs:
        args = [ex.ev(a, st) for a in e.args]
        # `self` in these assumed contracts is the enclosing function's self; the callee value is `callee`
        return apply_contract(ex, REG.externs[key], None, st.env.get('self'), args, kwargs_of(e), e, st, pnames=None, extra_env={'callee': callee})
    raise OutOfSubset('call of a computed callable (line %d)' % e.lineno)


def call_extern(ex, qual, e, st):
    if ('extern', qual) in REG.externs:
        args = [ex.ev(a, st) for a in e.args]
        return apply_contract(ex, REG.externs[('extern', qual)], None, None, args, kwargs_of(e), e, st, pnames=None)
    raise OutOfSubset('external function %s without an assumed contract (line %d)' % (qual, e.lineno))


# ----------------------------------------------------------------------------- library functions
def bind_params(ex, finfo, recv, args, kw, st):
    a = finfo.node.args
    names = [x.arg for x in a.posonlyargs + a.args]
    env = {}
    pos = list(args)
    if recv is not None and names:
        env[names[0]] = recv
        names = names[1:]
    if a.kwarg is not None:
        raise OutOfSubset('**kwargs callee %s' % finfo.qual)
    if a.vararg is not None:
        extra = pos[len(names):]
        pos = pos[:len(names)]
        env[a.vararg.arg] = ex.new_list(st, ex.seq_lit(extra), 'tuple')
        env[a.vararg.arg].elems = list(extra)
    if len(pos) > len(names):
        raise OutOfSubset('too many arguments for %s' % finfo.qual)
    for n, v in zip(names, pos):
        env[n] = v
    defaults = finfo.defaults()
    for n in names[len(pos):]:
        if n in kw:
            env[n] = ex.ev(kw[n], st)
        elif n in defaults:
            env[n] = ex.ev(defaults[n], st)
        else:
            raise OutOfSubset('missing argument %s for %s' % (n, finfo.qual))
    for n in kw:
        if n not in names:
            raise OutOfSubset('unexpected keyword %s for %s' % (n, finfo.qual))
    return env


def call_function(ex, finfo, recv, args, kw, e, st):
    c = REG.contracts.get(finfo.qual)
    env = bind_params(ex, finfo, recv, args, kw, st)
    if c is not None and not c.inline:
        return apply_contract(ex, c, finfo, recv, args, kw, e, st, env=env)
    if c is None and not auto_inline_ok(finfo):
        raise OutOfSubset('call to %s which has no contract (line %d)' % (finfo.qual, e.lineno))
    return inline_call(ex, finfo, env, e, st)


def auto_inline_ok(finfo):
    """loop-free bodies without a contract (data-class constructors, accessors, small helpers split off by a refactoring) are inlined;
    the calls they make are resolved like any other call (contract, further inlining up to the depth limit, or out-of-subset)"""
    for n in ast.walk(finfo.node):
        if isinstance(n, (ast.While, ast.For, ast.Yield, ast.YieldFrom, ast.Try, ast.ListComp, ast.GeneratorExp, ast.DictComp, ast.SetComp, ast.Lambda)):
            return False
    return True


def inline_call(ex, finfo, env, e, st):
    from .stmts import Runner
    if ex.inline_depth > 6:
        raise OutOfSubset('inlining too deep at %s' % finfo.qual)
    sub = type(ex)(ex.w, finfo, REG.contracts.get(finfo.qual) or ex.c, ctx_cls=ex.ctx, obligations=ex.obls,
                   prefix=ex.prefix, inline_depth=ex.inline_depth + 1)
    sub.counters = ex.counters
    sub.entry = ex.entry
    cst = st.fork()
    cst.env = dict(env)
    outs = Runner(sub).block(finfo.node.body, cst)
    ex.solver_seconds += sub.solver_seconds
    normal = []
    for o in outs:
        if o.kind == 'raise':
            ex.pending.append(o_with_env(o, st.env))
        elif o.kind == 'return':
            normal.append((o.st, o.val if o.val is not None else Val(NONE, 'none')))
        elif o.kind == 'next':
            normal.append((o.st, Val(NONE, 'none')))
    if not normal:
        st.assume(z3.BoolVal(False))
        return Val(fresh_v('noreturn'), None)
    # merge the normal exits back into st
    base = len(st.pc)
    if len(normal) == 1:
        s1, v1 = normal[0]
        st.pc, st.heap, st.alloc = s1.pc, s1.heap, s1.alloc
        return v1
    res_t = None
    res_ty = normal[0][1].ty
    # chain of ites keyed on each exit's own path facts
    acc_st, acc_v = normal[-1]
    for s1, v1 in reversed(normal[:-1]):
        cond = z3.And(*s1.pc[base:]) if len(s1.pc) > base else z3.BoolVal(True)
        merged = st.fork()
        merged.pc = list(st.pc[:base])
        ex.merge_into(merged, cond, _strip(s1, base, st), _strip(acc_st, base, st))
        nv = Val(z3.If(cond, v1.t, acc_v.t), v1.ty if v1.ty == acc_v.ty else None)
        acc_st, acc_v = merged, nv
        # exits are mutually exclusive and exhaustive: keep the disjunction of path facts
    disj = z3.Or(*[z3.And(*s1.pc[base:]) if len(s1.pc) > base else z3.BoolVal(True) for s1, _ in normal])
    st.pc, st.heap, st.alloc = acc_st.pc + [disj], acc_st.heap, acc_st.alloc
    return acc_v


def _strip(s, base, parent):
    t = s.fork()
    t.env = dict(parent.env)
    return t


def o_with_env(o, env):
    o.st.env = dict(env)
    return o


def instantiate(ex, cls, e, st):
    args = [ex.ev(a, st) for a in e.args]
    obj = Val(ex.new_obj(st, cls.qual), 'obj:' + cls.qual)
    init = ex.repo.find_method(cls, '__init__')
    if init is None:
        # exception classes without __init__: remember the arguments only
        for k, a in enumerate(args):
            ex.set_field(st, obj, 'args%d' % k, a)
        return obj
    call_function(ex, init, obj, args, kwargs_of(e), e, st)
    return obj


def modifies_points(ex, clauses, view, st):
    """translate modifies clauses to a list of (heap key, ref term or None=whole array)"""
    pts = []
    for m in clauses:
        m = m.strip()
        if m.endswith('[]'):
            v = ex.spec_val(m[:-2], view)
            for key in ('$seq', '$dhas', '$dval', '$dkeys'):
                pts.append((key, rv(v.t)))
        elif m.startswith('*.'):
            pts.append(('f:' + m[2:], None))
        elif m.startswith('$') or m.startswith('own:'):
            pts.append((m, None))
        else:
            base, _, fld = m.rpartition('.')
            v = ex.spec_val(base, view)
            pts.append(('f:' + fld, rv(v.t)))
    return pts


def apply_contract(ex, c, finfo, recv, args, kw, e, st, env=None, pnames=None, extra_env=None):
    """modular call: check requires, havoc modifies, assume ensures, fork declared exceptions"""
    if env is None:
        env = dict(extra_env or {})
        names = list(c.params) if c.params else []
        if recv is not None:
            env['self'] = recv
        for n, v in zip(names, args):
            env[n] = v
        for n in names[len(args):]:
            if n in kw:
                env[n] = ex.ev(kw[n], st)
        env['args'] = Val(ex.seq_lit(args), 'seq')
    # declared parameter types become static hints
    for n, ty in c.params.items():
        if n in env and env[n].ty is None and ex.static_ty(ty):
            env[n] = Val(env[n].t, ex.static_ty(ty))
    if ex.spec_mode:
        raise OutOfSubset('call to %s inside a specification' % c.qual)
    if c.trusted:
        USED_TRUSTED[c.qual] = c.why_trusted
    view = State()
    view.env = env
    view.heap, view.pc, view.alloc = st.heap, st.pc, st.alloc
    k = ex.counters.get('call/' + c.qual, 0)
    ex.counters['call/' + c.qual] = k + 1
    short = c.qual.split('.')[-1]
    for j, r in enumerate(c.requires):
        g = ex.spec(r, view)
        ex.prove('pre-of/%s#%d/%d' % (short, k, j), st.pc, g, detail='line %d: requires %s' % (getattr(e, 'lineno', 0), r if isinstance(r, str) else 'callable'))
        st.assume(g)
    for n, ty in c.params.items():
        if n in env:
            g = ex.type_pred(ty, env[n].t, st)
            if not z3.is_true(g):
                ex.prove('pre-of/%s#%d/type-%s' % (short, k, n), st.pc, g, detail='line %d: %s must be %s' % (getattr(e, 'lineno', 0), n, ty))
                st.assume(g)
    pre = st.fork()
    pre.env = dict(env)
    pts = modifies_points(ex, c.modifies, view, st)
    for key, ref in pts:
        arr = ex.harr(st, key)
        if ref is None:
            st.heap[key] = z3.Const(fresh_name('H_' + key.replace('$', 'S_').replace(':', '_')), arr.sort())
        else:
            st.heap[key] = z3.Store(arr, ref, z3.Const(fresh_name('hv'), arr.sort().range()))
    na = z3.Int(fresh_name('alloc'))
    st.assume(na >= st.alloc)
    st.alloc = na
    rty = c.result
    res = Val(fresh_v('res_' + short), ex.static_ty(rty))
    st.assume(z3.Implies(is_r(res.t), rv(res.t) < st.alloc))
    # exceptional exits
    for exc in c.raises:
        est = st.fork()
        eview = State(); eview.env = env; eview.heap, eview.pc, eview.alloc = est.heap, est.pc, est.alloc
        saved = ex.old_state if hasattr(ex, 'old_state') else None
        excval = None
        if c.ensures_raise.get(exc):
            # the exception object the callee raises: a fresh object about which its contract speaks as `exc`
            excval = Val(ex.new_obj(est, exc), exc if '.' not in exc else 'obj:' + exc)
            eview.alloc = est.alloc
            eview.env = dict(env); eview.env['exc'] = excval
            eview.heap, eview.pc = est.heap, est.pc
        for cl in c.ensures_raise.get(exc, []):
            est.assume(ex.spec(cl, eview, old=pre))
        ex.pending.append(Outcome('raise', est, exc=exc, val=excval, site='call %s@%d' % (short, getattr(e, 'lineno', 0))))
    if c.raises_any:
        est = st.fork()
        ex.pending.append(Outcome('raise', est, exc='ANY', site='call %s@%d' % (short, getattr(e, 'lineno', 0))))
    post = State()
    post.env = env
    post.heap, post.pc, post.alloc = st.heap, st.pc, st.alloc
    if rty is not None:
        st.assume(ex.type_pred(rty, res.t, st))
    for cl in c.ensures:
        g = ex.spec(cl, post, old=pre, result=res)
        st.assume(g)
        if z3.is_implies(g):
            # modus ponens on the spot when the antecedent is literally among the caller's facts (keeps quantified
            # consequents usable without asking a solver to discharge a quantified antecedent)
            from .verify import flatten_and
            have = {f.get_id() for f in flatten_and(st.pc)}
            if all(a.get_id() in have for a in flatten_and([g.arg(0)])):
                st.assume(g.arg(1))
    return res
