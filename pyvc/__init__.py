"""pyvc -- a small verification-condition generator for the Python subset PyYAML is written in.

The verified text is re-read from /repo/lib/yaml on every run (pyvc.source); contracts are sidecar
records (pyvc.spec, /verif/contracts); obligations are discharged by z3 / cvc5 (pyvc.solve).
See /verif/DESIGN.md section 3.
"""
import os
REPO = os.environ.get('PYVC_REPO', '/repo')
VERIF = os.path.dirname(os.path.dirname(os.path.abspath(__file__)))
