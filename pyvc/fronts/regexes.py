"""Regular-language contracts of the implicit resolvers (DESIGN 5/C08).

The registrations are read from the module body of lib/yaml/resolver.py on every run; every compiled pattern is translated
from its real source (re._parser, honouring re.X) to a z3 regular expression.  Obligations (each a z3 query; unsat = proved):

  index-complete/<tag>     every text of the language starts with a character of the registered `first` list
                           (or is empty and '' is listed): the first-character index can never hide a match
  language/<tag>           the language equals the YAML 1.1 language written in this file from the type repository
                           (with PyYAML's documented deviations spelt out), so any drift of a pattern is reported
  disjoint/<a>/<b>         two implicit types never claim the same text (resolution does not depend on list order)
  dump/<what>              the text the representer writes for a value of a type lies in that type's language and in no other
  order/first-char-lists   the per-character lists built by add_implicit_resolver keep registration order

Counterexamples are concrete strings; they are replayed on the real library (yaml.resolver / safe_load).
"""
import ast, re, time, os, json, subprocess
import z3
from ..source import repo as _repo, ClassInfo
from .. import REPO, VERIF

Y = 'tag:yaml.org,2002:'


# ------------------------------------------------------------------------------------------------ sre -> z3
def sre_to_z3(src, flags=0):
    import re._parser as sre
    tree = sre.parse(src, flags)
    return _seq(list(tree))


def _lit(c):
    return z3.Re(z3.StringVal(chr(c)))


def _seq(items):
    parts = []
    for op, av in items:
        name = str(op)
        if name == 'AT':
            continue          # ^ and $ at the ends: membership is whole-string (match + '$'), checked by `anchored`
        parts.append(_item(name, av))
    if not parts:
        return z3.Re(z3.StringVal(''))
    return parts[0] if len(parts) == 1 else z3.Concat(*parts)


def _cls(items):
    alts, neg = [], False
    for o, a in items:
        n = str(o)
        if n == 'NEGATE':
            neg = True
        elif n == 'LITERAL':
            alts.append(_lit(a))
        elif n == 'RANGE':
            alts.append(z3.Range(chr(a[0]), chr(a[1])))
        elif n == 'CATEGORY':
            c = str(a)
            if c == 'CATEGORY_DIGIT':
                alts.append(z3.Range('0', '9'))
            elif c == 'CATEGORY_SPACE':
                alts.append(z3.Union(*[_lit(ord(x)) for x in ' \t\n\r\f\v']))
            else:
                raise ValueError('category %s' % c)
        else:
            raise ValueError('class item %s' % n)
    r = alts[0] if len(alts) == 1 else z3.Union(*alts)
    if neg:
        r = z3.Intersect(z3.Complement(r), z3.AllChar(z3.ReSort(z3.StringSort())))
    return r


def _item(name, av):
    if name == 'LITERAL':
        return _lit(av)
    if name == 'NOT_LITERAL':
        return z3.Intersect(z3.Complement(_lit(av)), z3.AllChar(z3.ReSort(z3.StringSort())))
    if name == 'IN':
        return _cls(av)
    if name == 'ANY':
        return z3.AllChar(z3.ReSort(z3.StringSort()))
    if name == 'BRANCH':
        alts = [_seq(list(b)) for b in av[1]]
        return alts[0] if len(alts) == 1 else z3.Union(*alts)
    if name == 'SUBPATTERN':
        return _seq(list(av[3]))
    if name in ('MAX_REPEAT', 'MIN_REPEAT'):
        lo, hi, sub = av
        r = _seq(list(sub))
        if str(hi) == 'MAXREPEAT':
            if lo == 0:
                return z3.Star(r)
            if lo == 1:
                return z3.Plus(r)
            return z3.Concat(z3.Loop(r, lo, lo), z3.Star(r))
        if lo == 0 and hi == 1:
            return z3.Option(r)
        return z3.Loop(r, lo, hi)
    raise ValueError('regex construct %s' % name)


def anchored(src, flags):
    """the pattern is used with .match(): it must be anchored at the end ('$') for membership to be whole-string"""
    import re._parser as sre
    t = list(sre.parse(src, flags))
    return bool(t) and str(t[-1][0]) == 'AT' and 'END' in str(t[-1][1])


# ------------------------------------------------------------------------------------------------ spec side (written from the YAML 1.1 type repository)
D = '[0-9]'
SPEC = {
    # http://yaml.org/type/bool.html ; deviation PyYAML-bool: the single letters y|Y|n|N are NOT booleans in PyYAML
    'bool': r'yes|Yes|YES|no|No|NO|true|True|TRUE|false|False|FALSE|on|On|ON|off|Off|OFF',
    # http://yaml.org/type/null.html
    'null': r'~|null|Null|NULL|',
    # http://yaml.org/type/int.html (binary, octal, decimal, hexadecimal, sexagesimal)
    'int': r'[-+]?0b[0-1_]+|[-+]?0[0-7_]+|[-+]?(?:0|[1-9][0-9_]*)|[-+]?0x[0-9a-fA-F_]+|[-+]?[1-9][0-9_]*(?::[0-5]?[0-9])+',
    # http://yaml.org/type/float.html ; deviations PyYAML-float: a mantissa needs digits before the dot or is '.d+', the
    # exponent needs a sign, sexagesimal needs the trailing fraction dot
    'float': r'[-+]?(?:[0-9][0-9_]*)\.[0-9_]*(?:[eE][-+][0-9]+)?|\.[0-9][0-9_]*(?:[eE][-+][0-9]+)?|[-+]?[0-9][0-9_]*(?::[0-5]?[0-9])+\.[0-9_]*|[-+]?\.(?:inf|Inf|INF)|\.(?:nan|NaN|NAN)',
    # http://yaml.org/type/timestamp.html
    'timestamp': r'[0-9][0-9][0-9][0-9]-[0-9][0-9]-[0-9][0-9]|[0-9][0-9][0-9][0-9]-[0-9][0-9]?-[0-9][0-9]?(?:[Tt]|[ \t]+)[0-9][0-9]?:[0-9][0-9]:[0-9][0-9](?:\.[0-9]*)?(?:[ \t]*(?:Z|[-+][0-9][0-9]?(?::[0-9][0-9])?))?',
    'merge': r'<<',
    'value': r'=',
    'yaml': r'!|&|\*',
}
# languages of what the representer writes (Python's str(int), the fixed-up repr(float), isoformat): ASSUMED built-in contracts
DUMP = {
    'int': ('int', r'-?(?:0|[1-9][0-9]*)'),
    'bool': ('bool', r'true|false'),
    'null': ('null', r'null'),
    'float-plain': ('float', r'-?[0-9]+\.[0-9]+'),
    'float-exp-with-dot': ('float', r'-?[0-9]+\.[0-9]+e[-+][0-9]+'),
    'float-exp-fixed-up': ('float', r'-?[0-9]+\.0e[-+][0-9]+'),
    'float-inf-nan': ('float', r'\.inf|-\.inf|\.nan'),
    'date': ('timestamp', r'[0-9][0-9][0-9][0-9]-[0-9][0-9]-[0-9][0-9]'),
    'datetime-naive': ('timestamp', r'[0-9][0-9][0-9][0-9]-[0-9][0-9]-[0-9][0-9] [0-9][0-9]:[0-9][0-9]:[0-9][0-9](?:\.[0-9][0-9][0-9][0-9][0-9][0-9])?'),
    'datetime-utc-offset-minutes': ('timestamp', r'[0-9][0-9][0-9][0-9]-[0-9][0-9]-[0-9][0-9] [0-9][0-9]:[0-9][0-9]:[0-9][0-9](?:\.[0-9][0-9][0-9][0-9][0-9][0-9])?[-+][0-9][0-9]:[0-9][0-9]'),
}


def registrations(repo):
    """(tag, regex source, flags, first list, line) for every Resolver.add_implicit_resolver(...) at module level"""
    m = repo.modules['yaml.resolver']
    out = []
    for st in m.tree.body:
        if isinstance(st, ast.Expr) and isinstance(st.value, ast.Call) and isinstance(st.value.func, ast.Attribute) and st.value.func.attr == 'add_implicit_resolver':
            c = st.value
            tag = ast.literal_eval(c.args[0])
            rx = c.args[1]
            if not (isinstance(rx, ast.Call) and ast.unparse(rx.func) == 're.compile'):
                out.append((tag, None, 0, None, st.lineno)); continue
            src = ast.literal_eval(rx.args[0])
            flags = 0
            for a in rx.args[1:]:
                for n in ast.walk(a):
                    if isinstance(n, ast.Attribute) and n.attr in ('X', 'VERBOSE'):
                        flags |= re.X
                    if isinstance(n, ast.Attribute) and n.attr in ('I', 'IGNORECASE'):
                        flags |= re.I
            f = c.args[2]
            if isinstance(f, ast.Call) and isinstance(f.func, ast.Name) and f.func.id == 'list':
                first = list(ast.literal_eval(f.args[0]))
            else:
                first = ast.literal_eval(f)
            out.append((tag, src, flags, first, st.lineno))
    return out


def ob(name, verdict, seconds, detail, witness=None, replayed=False):
    return {'name': 'regex/' + name, 'kind': 'proof', 'verdict': verdict, 'backend': 'z3-regex', 'seconds': round(seconds, 4), 'detail': detail,
            'model': witness, 'witness': witness, 'note': '', 'replayed': replayed}


def decide(constraint_builder, timeout_ms=20000):
    """constraint_builder(s) -> list of z3 constraints over the string s; returns (verdict, witness, seconds)"""
    t = time.time()
    s = z3.String('s')
    sol = z3.Solver()
    sol.set('timeout', timeout_ms)
    sol.add(*constraint_builder(s))
    from ..z3v import guarded_check
    r = guarded_check(sol, timeout_ms)
    if r == z3.unsat:
        return 'proved', None, time.time() - t
    if r == z3.sat:
        w = sol.model().eval(s, model_completion=True)
        return 'refuted', w.as_string(), time.time() - t
    return 'undecided', None, time.time() - t


def replay(text):
    """run the real resolver on a witness text: which tag does the unchanged/changed library resolve it to?"""
    code = ("import sys, json, yaml\nfrom yaml.resolver import Resolver\nfrom yaml.nodes import ScalarNode\n"
            "t = json.loads(sys.argv[1])\nr = Resolver()\nprint(json.dumps(r.resolve(ScalarNode, t, (True, False))))\n")
    try:
        p = subprocess.run(['/venv/bin/python', '-c', code, json.dumps(text)], capture_output=True, text=True, timeout=60,
                           env=dict(os.environ, PYTHONPATH=os.path.join(REPO, 'lib')))
        return json.loads(p.stdout.strip()) if p.returncode == 0 else 'error: ' + p.stderr[-200:]
    except Exception as e:
        return 'error: %s' % e


def run(pid='C08', tier='quick', seed=0):
    repo = _repo()
    regs = registrations(repo)
    obls = []
    lang = {}
    seen_order = []
    for tag, src, flags, first, line in regs:
        short = tag[len(Y):] if tag.startswith(Y) else tag
        t0 = time.time()
        if src is None:
            obls.append(ob('recognised/' + short, 'refuted', 0, 'registration at line %d is not a literal re.compile(...)' % line))
            continue
        try:
            r = sre_to_z3(src, flags)
        except Exception as e:
            obls.append(ob('translate/' + short, 'refuted', 0, 'pattern not translatable: %s' % e))
            continue
        lang[short] = r
        seen_order.append(short)
        obls.append(ob('anchored/' + short, 'proved' if anchored(src, flags) else 'refuted', time.time() - t0,
                       'the pattern ends with $ (match() then means the whole text is in the language)'))
        # index completeness
        fs = [f for f in first if f != '' and f is not None]
        allow_empty = '' in first

        def cb(s, r=r, fs=fs, allow_empty=allow_empty):
            cs = [z3.InRe(s, r)]
            bad_first = z3.And(z3.Length(s) > 0, z3.And(*[z3.SubString(s, 0, 1) != z3.StringVal(f) for f in fs]) if fs else z3.BoolVal(True))
            cs.append(z3.Or(bad_first, z3.And(z3.Length(s) == 0, z3.BoolVal(not allow_empty))))
            return cs
        v, w, sec = decide(cb)
        o = ob('index-complete/' + short, v, sec, 'every text matched by the %s pattern starts with a character of its `first` list %r' % (short, first), w)
        if w is not None:
            o['replayed'] = True
            o['detail'] += ' | witness %r: the real resolver gives %r' % (w, replay(w))
        obls.append(o)
        # language equality with the spec
        if short in SPEC:
            spec = sre_to_z3(SPEC[short], 0)
            v, w, sec = decide(lambda s, r=r, spec=spec: [z3.Xor(z3.InRe(s, r), z3.InRe(s, spec))])
            o = ob('language/' + short, v, sec, 'L(pattern registered for %s) == the YAML 1.1 language of %s (with the documented PyYAML deviations)' % (short, short), w)
            if w is not None:
                o['replayed'] = True
                o['detail'] += ' | witness %r: in exactly one of the two languages; the real resolver gives %r' % (w, replay(w))
            obls.append(o)
        else:
            obls.append(ob('language/' + short, 'refuted', 0, 'an implicit resolver for a tag the specification side does not know: %s' % tag))
    missing = sorted(set(SPEC) - set(lang))
    obls.append(ob('all-types-registered', 'proved' if not missing else 'refuted', 0, 'every YAML 1.1 implicit type has a resolver', missing))
    # pairwise disjointness
    names = [n for n in seen_order if n in lang]
    for i, a in enumerate(names):
        for b in names[i + 1:]:
            v, w, sec = decide(lambda s, a=a, b=b: [z3.InRe(s, lang[a]), z3.InRe(s, lang[b])])
            o = ob('disjoint/%s/%s' % (a, b), v, sec, 'no text is both %s and %s' % (a, b), w)
            if w is not None:
                o['replayed'] = True
                o['detail'] += ' | witness %r resolves to %r' % (w, replay(w))
            obls.append(o)
    # dump side
    for what, (ty, rx) in DUMP.items():
        if ty not in lang:
            continue
        d = sre_to_z3(rx, 0)
        v, w, sec = decide(lambda s, d=d, ty=ty: [z3.InRe(s, d), z3.Not(z3.InRe(s, lang[ty]))])
        o = ob('dump/%s-in-%s' % (what, ty), v, sec, 'every text the representer writes for %s is in the %s language (so the tag can be elided and is re-derived)' % (what, ty), w)
        if w is not None:
            o['replayed'] = True
            o['detail'] += ' | witness %r resolves to %r' % (w, replay(w))
        obls.append(o)
    # order of the per-character lists: add_implicit_resolver appends, so registration order is resolution order (used by `disjoint`)
    f = repo.func('yaml.resolver.BaseResolver.add_implicit_resolver')
    appends = [n for n in ast.walk(f.node) if isinstance(n, ast.Call) and isinstance(n.func, ast.Attribute) and n.func.attr in ('append', 'insert', 'setdefault')]
    ok = any(n.func.attr == 'append' for n in appends) and not any(n.func.attr == 'insert' for n in appends)
    obls.append(ob('order/first-char-lists-append', 'proved' if ok else 'refuted', 0, 'add_implicit_resolver appends to the per-character lists (never inserts in front)'))
    return {'obligations': obls, 'solver_seconds': sum(o['seconds'] for o in obls)}
