"""Effect / frame contracts checked modularly on the AST (DESIGN 3.9): who may call what, who may write what,
which handlers may catch what.  Every rule is stated from the property; violations name the function and line."""
import ast, time
from ..source import repo as _repo, ClassInfo, FuncInfo
from . import tables as T


def ob(name, ok, detail, witness=None):
    return {'name': 'effects/' + name, 'kind': 'proof', 'verdict': 'proved' if ok else 'refuted', 'backend': 'effect-check',
            'seconds': 0.0, 'detail': detail, 'model': None, 'witness': witness, 'note': ''}


# ------------------------------------------------------------------------------------------------ call graph
def calls_in(f):
    out = []
    for n in ast.walk(f.node):
        if isinstance(n, ast.Call):
            fn = n.func
            if isinstance(fn, ast.Attribute) and isinstance(fn.value, ast.Name) and fn.value.id in ('self', 'cls'):
                out.append(('self', fn.attr, n))
            elif isinstance(fn, ast.Attribute) and isinstance(fn.value, ast.Call) and isinstance(fn.value.func, ast.Name) and fn.value.func.id == 'super':
                out.append(('super', fn.attr, n))
            elif isinstance(fn, ast.Name):
                out.append(('global', fn.id, n))
            elif isinstance(fn, ast.Attribute):
                out.append(('attr', fn.attr, n))
            else:
                out.append(('dynamic', ast.unparse(fn), n))
    return out


def closure(repo, ctx, roots):
    """functions reachable from `roots` (quals) resolving self.<m> through ctx's MRO and super() through the definer's MRO"""
    seen, work = {}, list(roots)
    while work:
        q = work.pop()
        if q in seen:
            continue
        try:
            f = repo.func(q)
        except KeyError:
            continue
        seen[q] = f
        for kind, name, node in calls_in(f):
            m = None
            if kind == 'self':
                m = repo.find_method(ctx, name)
            elif kind == 'super' and f.cls is not None:
                mro = f.cls.mro
                for k in mro[1:]:
                    if isinstance(k, ClassInfo) and name in k.methods:
                        m = k.methods[name]
                        break
            elif kind == 'global':
                g = repo.lookup(f.module.name, name)
                if isinstance(g, FuncInfo):
                    m = g
                elif isinstance(g, ClassInfo):
                    m = repo.find_method(g, '__init__')
            if m is not None and m.qual not in seen:
                work.append(m.qual)
    return seen


FORBIDDEN_NAMES = {'__import__', 'eval', 'exec', 'compile', 'open', 'globals', 'locals', 'vars', 'input', 'breakpoint',
                   'importlib', 'os', 'subprocess', 'pickle', 'copyreg', 'ctypes', 'runpy', 'pkgutil', 'imp', 'builtins',
                   'setattr', 'delattr', 'getattr', 'hasattr', 'type', 'object', 'classmethod', 'staticmethod', 'memoryview'}
SAFE_ATTR_CALLS = {'append', 'extend', 'get', 'group', 'groupdict', 'lower', 'upper', 'replace', 'split', 'startswith', 'endswith', 'encode', 'decode',
                   'reverse', 'update', 'keys', 'values', 'items', 'match', 'search', 'join', 'pop', 'insert', 'copy', 'strip', 'lstrip', 'rstrip',
                   'decodebytes', 'encodebytes', 'date', 'datetime', 'timedelta', 'timezone', 'add', 'index', 'count', 'isdigit', 'ljust', 'find',
                   'start', 'end', 'setdefault', 'sort', 'format', 'total_seconds', 'fromisoformat', 'isoformat', 'utcoffset', 'tobytes', 'hex',
                   'decodestring', 'rsplit'}
SAFE_MODULES = {'datetime', 'base64', 'binascii', 're', 'collections', 'math'}
DUNDER_OK = {'__init__', '__name__', '__doc__'}


def audit_closure(repo, ctx, fns, allow_names=(), allow_funcs=(), allow_dynamic_in=(), allow_modules=(), allow_dunder_in=()):
    bad = []
    for q, f in sorted(fns.items()):
        for n in ast.walk(f.node):
            if isinstance(n, ast.Name) and isinstance(n.ctx, ast.Load):
                if n.id in ('getattr', 'hasattr') and literal_reflection(f.node, n):
                    continue
                if n.id in FORBIDDEN_NAMES and n.id not in allow_names and not (n.id, q) in allow_funcs:
                    bad.append('%s:%d uses %s' % (q, n.lineno, n.id))
                g = repo.lookup(f.module.name, n.id)
                if isinstance(g, tuple) and g[0] == 'module' and g[1].split('.')[0] not in SAFE_MODULES | set(allow_modules) and (g[1], q) not in allow_funcs:
                    bad.append('%s:%d references module %s' % (q, n.lineno, g[1]))
            if isinstance(n, ast.Attribute) and n.attr.startswith('__') and n.attr.endswith('__') and n.attr not in DUNDER_OK and q not in allow_dunder_in:
                if not (isinstance(n.value, ast.Name) and isinstance(repo.lookup(f.module.name, n.value.id), ClassInfo) and n.attr == '__init__'):
                    bad.append('%s:%d touches %s' % (q, n.lineno, n.attr))
            if isinstance(n, (ast.Import, ast.ImportFrom)):
                bad.append('%s:%d import statement' % (q, n.lineno))
            if isinstance(n, ast.Global):
                bad.append('%s:%d global statement' % (q, n.lineno))
        for kind, name, node in calls_in(f):
            if kind == 'dynamic' and q not in allow_dynamic_in:
                bad.append('%s:%d calls a computed callable %s' % (q, node.lineno, name))
            if kind == 'global':
                g = repo.lookup(f.module.name, name)
                local = any(isinstance(x, ast.Name) and x.id == name and isinstance(x.ctx, ast.Store) for x in ast.walk(f.node)) or name in f.params
                if local and q not in allow_dynamic_in:
                    bad.append('%s:%d calls the local variable %s' % (q, node.lineno, name))
            if kind == 'attr' and name not in SAFE_ATTR_CALLS and (name, q) not in allow_funcs:
                bad.append('%s:%d calls .%s on a computed receiver' % (q, node.lineno, name))
            if kind == 'self' and repo.find_method(ctx, name) is None:
                bad.append('%s:%d calls self.%s which is not a library method (field holding a callable)' % (q, node.lineno, name))
    return bad


def literal_reflection(fn_node, name_node):
    """getattr/hasattr used as a call with a literal attribute name"""
    for n in ast.walk(fn_node):
        if isinstance(n, ast.Call) and n.func is name_node:
            return len(n.args) >= 2 and isinstance(n.args[1], ast.Constant) and isinstance(n.args[1].value, str)
    return False


CO = 'yaml.constructor.BaseConstructor.construct_object'


def run_c01(pid='C01', tier='quick', seed=0):
    repo = _repo()
    obls = []
    tb = T.Tables(repo)
    for mn in ['yaml.constructor', 'yaml.resolver', 'yaml.representer']:
        tb.run_module(repo.modules[mn])
    for q in ['yaml.loader.SafeLoader', 'yaml.loader.BaseLoader']:
        ctx = repo.cls(q)
        roots = set((tb.view(ctx, 'yaml_constructors') or {}).values()) | set((tb.view(ctx, 'yaml_multi_constructors') or {}).values())
        roots |= {repo.find_method(ctx, n).qual for n in ['construct_document', 'construct_object', 'get_single_data', 'get_data', 'check_data',
                                                            'construct_scalar', 'construct_sequence', 'construct_mapping', 'construct_pairs']}
        fns = closure(repo, ctx, roots)
        # the parsing half (reader .. composer) is reached through get_single_node/get_node/check_node; it is audited for the same rule
        bad = audit_closure(repo, ctx, fns,
                            allow_dynamic_in={'yaml.constructor.BaseConstructor.construct_object', 'yaml.parser.Parser.check_event', 'yaml.parser.Parser.peek_event',
                                              'yaml.parser.Parser.get_event', 'yaml.reader.Reader.update'},
                            allow_funcs={('getattr', 'yaml.reader.Reader.__init__'), ('read', 'yaml.reader.Reader.update_raw'), ('codecs', 'yaml.reader.Reader.determine_encoding'),
                                         ('codecs', 'yaml.scanner.Scanner.scan_uri_escapes'), ('get_snippet', 'yaml.error.MarkedYAMLError.__str__'),
                                         ('next', 'yaml.constructor.BaseConstructor.construct_object'),
                                         ('state', 'yaml.parser.Parser.check_event'), ('state', 'yaml.parser.Parser.peek_event'), ('state', 'yaml.parser.Parser.get_event'),
                                         ('raw_decode', 'yaml.reader.Reader.update'), ('types', CO)},
                            allow_names={'next'}, allow_modules={'codecs'}, allow_dunder_in={CO})
        bad = [b for b in bad if 'calls self.state ' not in b and 'calls self.raw_decode ' not in b]
        obls.append(ob('%s/closure-calls-nothing-document-named' % q.split('.')[-1], not bad,
                       'functions reachable from the %d constructors of %s (%d functions) import nothing, use no reflection, call no computed callable' % (len(roots), q, len(fns)), bad[:8]))
        unsafe_fns = sorted(x for x in fns if x.split('.')[-1] in ('find_python_name', 'find_python_module', 'make_python_instance', 'set_python_instance_state',
                                                                     'construct_python_object', 'construct_python_object_apply', 'construct_python_object_new',
                                                                     'construct_python_module', 'construct_python_name', 'construct_yaml_object'))
        obls.append(ob('%s/closure-excludes-python-constructors' % q.split('.')[-1], not unsafe_fns, 'no python/* or object constructor is reachable', unsafe_fns))
    # construct_undefined raises on every path
    cu = repo.func('yaml.constructor.SafeConstructor.construct_undefined')
    body = [s for s in cu.node.body if not (isinstance(s, ast.Expr) and isinstance(s.value, ast.Constant))]
    ok = len(body) == 1 and isinstance(body[0], ast.Raise) and isinstance(body[0].exc, ast.Call) and getattr(body[0].exc.func, 'id', '') == 'ConstructorError'
    obls.append(ob('construct_undefined/always-raises-ConstructorError', ok, 'the default constructor of the safe loaders is a single raise ConstructorError', None))
    obls += api_binding(repo)
    return {'obligations': obls}


def api_binding(repo):
    """safe_load/safe_load_all/full_load... pass the literal loader class; load() only constructs Loader(stream) and calls get_single_data/dispose"""
    obls = []
    m = repo.modules['yaml']
    want = {'safe_load': ('load', 'SafeLoader'), 'safe_load_all': ('load_all', 'SafeLoader'), 'full_load': ('load', 'FullLoader'),
            'full_load_all': ('load_all', 'FullLoader'), 'unsafe_load': ('load', 'UnsafeLoader'), 'unsafe_load_all': ('load_all', 'UnsafeLoader')}
    for name, (callee, cls) in want.items():
        f = m.funcs.get(name)
        ok = False
        if f is not None:
            body = [s for s in f.node.body if not (isinstance(s, ast.Expr) and isinstance(s.value, ast.Constant))]
            if len(body) == 1 and isinstance(body[0], ast.Return) and isinstance(body[0].value, ast.Call):
                c = body[0].value
                ok = isinstance(c.func, ast.Name) and c.func.id == callee and len(c.args) == 2 and isinstance(c.args[0], ast.Name) and c.args[0].id == 'stream' \
                    and isinstance(c.args[1], ast.Name) and c.args[1].id == cls and not c.keywords
        obls.append(ob('api/%s-binds-%s' % (name, cls), ok, 'yaml.%s(stream) is exactly %s(stream, %s)' % (name, callee, cls)))
    for name, meths in {'load': {'get_single_data', 'dispose'}, 'load_all': {'check_data', 'get_data', 'dispose'},
                        'compose': {'get_single_node', 'dispose'}, 'compose_all': {'check_node', 'get_node', 'dispose'},
                        'parse': {'check_event', 'get_event', 'dispose'}, 'scan': {'check_token', 'get_token', 'dispose'}}.items():
        f = m.funcs[name]
        used, other = set(), []
        for kind, nm, node in calls_in(f):
            if kind == 'attr':
                used.add(nm)
            elif kind == 'global' and nm != 'Loader':
                other.append(nm)
        obls.append(ob('api/%s-uses-only-its-loader' % name, used == meths and not other, 'yaml.%s constructs Loader(stream) and calls only %s on it' % (name, sorted(meths)), sorted(used ^ meths) + other))
    return obls


def run_c04(pid='C04', tier='quick', seed=0):
    repo = _repo()
    obls = []
    tb = T.Tables(repo)
    for mn in ['yaml.constructor', 'yaml.resolver', 'yaml.representer']:
        tb.run_module(repo.modules[mn])
    ctx = repo.cls('yaml.loader.FullLoader')
    roots = set((tb.view(ctx, 'yaml_constructors') or {}).values()) | set((tb.view(ctx, 'yaml_multi_constructors') or {}).values())
    roots |= {repo.find_method(ctx, n).qual for n in ['construct_document', 'construct_object', 'construct_scalar', 'construct_sequence', 'construct_mapping', 'construct_pairs']}
    fns = closure(repo, ctx, roots)
    FP = 'yaml.constructor.FullConstructor.find_python_name'
    bad = audit_closure(repo, ctx, fns,
                        allow_dynamic_in={'yaml.constructor.BaseConstructor.construct_object'},
                        allow_funcs={('__import__', FP), ('sys', FP), ('getattr', FP), ('hasattr', FP), ('next', 'yaml.constructor.BaseConstructor.construct_object'),
                                     ('builtins', FP), ('types', CO)},
                        allow_names={'next', 'complex', 'tuple'}, allow_dunder_in={CO})
    obls.append(ob('FullLoader/closure-calls-nothing-document-named', not bad,
                   'functions reachable from the constructors of FullLoader (%d functions) import nothing, call no computed callable; reflection only in find_python_name' % len(fns), bad[:8]))
    forbidden = sorted(x for x in fns if x.split('.')[-1] in ('make_python_instance', 'set_python_instance_state', 'construct_python_object', 'construct_python_object_apply',
                                                                'construct_python_object_new', 'construct_python_module', 'find_python_module', 'construct_yaml_object'))
    obls.append(ob('FullLoader/closure-excludes-instantiating-constructors', not forbidden, 'object/module constructors are unreachable from the full tables', forbidden))
    # __import__ only under `if unsafe:`; no call site in the closure passes unsafe
    f = repo.func(FP)
    guarded = True
    for n in ast.walk(f.node):
        if isinstance(n, ast.Call) and isinstance(n.func, ast.Name) and n.func.id == '__import__':
            guarded = guarded and under_if(f.node, n, 'unsafe')
    obls.append(ob('find_python_name/import-only-when-unsafe', guarded, '__import__ is syntactically guarded by `if unsafe:`'))
    passes = []
    for q, g in fns.items():
        for kind, name, node in calls_in(g):
            if name in ('find_python_name', 'find_python_module') and (len(node.args) > 2 or any(k.arg == 'unsafe' for k in node.keywords)):
                passes.append('%s:%d' % (q, node.lineno))
    obls.append(ob('FullLoader/no-call-passes-unsafe', not passes, 'no reachable call site of find_python_name passes unsafe', passes))
    # what find_python_name does with the module: only sys.modules[...] and getattr(module, name); result not called, nothing set
    callsf = [(k, nm) for k, nm, _ in calls_in(f)]
    okc = all((k, nm) in {('global', '__import__'), ('global', 'ConstructorError'), ('global', 'getattr'), ('global', 'hasattr'), ('attr', 'rsplit'), ('attr', 'encode'), ('global', 'str')} for k, nm in callsf)
    obls.append(ob('find_python_name/only-looks-up', okc, 'find_python_name calls only __import__ (guarded), getattr/hasattr, str methods and ConstructorError', sorted(set(callsf))))
    obls += [o for o in api_binding(repo) if 'full_load' in o['name']]
    return {'obligations': obls}


def under_if(fn_node, target, name):
    """is `target` inside the body of an `if <name>:` statement"""
    for n in ast.walk(fn_node):
        if isinstance(n, ast.If) and isinstance(n.test, ast.Name) and n.test.id == name:
            for s in n.body:
                if any(x is target for x in ast.walk(s)):
                    return True
    return False


# ------------------------------------------------------------------------------------------------ C10: API helpers
def run_c10(pid='C10', tier='quick', seed=0):
    repo = _repo()
    obls = []
    m = repo.modules['yaml']
    three = ['loader.Loader', 'loader.FullLoader', 'loader.UnsafeLoader']
    spec = {'add_constructor': ('add_constructor', ['tag', 'constructor'], False),
            'add_multi_constructor': ('add_multi_constructor', ['tag_prefix', 'multi_constructor'], False),
            'add_implicit_resolver': ('add_implicit_resolver', ['tag', 'regexp', 'first'], True),
            'add_path_resolver': ('add_path_resolver', ['tag', 'path', 'kind'], True)}
    for name, (meth, argn, dumper_too) in spec.items():
        f = m.funcs[name]
        got = helper_targets(f)
        want = {('Loader is None', t, meth, tuple(argn)) for t in three} | {('else', 'Loader', meth, tuple(argn))}
        if dumper_too:
            want |= {('always', 'Dumper', meth, tuple(argn))}
        obls.append(ob('api/%s-targets' % name, got == want, 'with Loader=None exactly Loader, FullLoader, UnsafeLoader are targeted (never SafeLoader/BaseLoader); otherwise only the given class',
                       sorted(map(str, got ^ want))))
        d = f.defaults()
        okd = ('Loader' in d and isinstance(d['Loader'], ast.Constant) and d['Loader'].value is None) and (not dumper_too or (isinstance(d.get('Dumper'), ast.Name) and d['Dumper'].id == 'Dumper'))
        obls.append(ob('api/%s-defaults' % name, okd, 'default Loader is None, default Dumper is Dumper'))
    for name, meth, argn in [('add_representer', 'add_representer', ['data_type', 'representer']), ('add_multi_representer', 'add_multi_representer', ['data_type', 'multi_representer'])]:
        f = m.funcs[name]
        got = helper_targets(f)
        obls.append(ob('api/%s-targets' % name, got == {('always', 'Dumper', meth, tuple(argn))}, 'only the given Dumper is targeted', sorted(map(str, got))))
        d = f.defaults()
        obls.append(ob('api/%s-defaults' % name, isinstance(d.get('Dumper'), ast.Name) and d['Dumper'].id == 'Dumper', 'default Dumper is Dumper'))
    # YAMLObject metaclass
    mc = repo.func('yaml.YAMLObjectMetaclass.__init__')
    src = ast.unparse(mc.node)
    regs = [(k, nm, ast.unparse(n)) for k, nm, n in calls_in(mc) if nm in T.ADDERS]
    want = {"loader.add_constructor(cls.yaml_tag, cls.from_yaml)", "cls.yaml_loader.add_constructor(cls.yaml_tag, cls.from_yaml)", "cls.yaml_dumper.add_representer(cls, cls.to_yaml)"}
    guarded = all(under_test(mc.node, n, "'yaml_tag' in kwds and kwds['yaml_tag'] is not None") for k, nm, n in calls_in(mc) if nm in T.ADDERS)
    obls.append(ob('YAMLObjectMetaclass/registers-on-own-loaders-and-dumper', {r[2] for r in regs} == want and guarded,
                   'a YAMLObject subclass registers from_yaml on each of its yaml_loader classes and to_yaml on its yaml_dumper, only when the class body defines a non-None yaml_tag', sorted({r[2] for r in regs} ^ want)))
    yo = repo.cls('yaml.YAMLObject')
    okl = ast.unparse(yo.attrs.get('yaml_loader', ast.Constant(None))) == '[Loader, FullLoader, UnsafeLoader]' and ast.unparse(yo.attrs.get('yaml_dumper', ast.Constant(None))) == 'Dumper' \
        and ast.unparse(yo.attrs.get('yaml_tag', ast.Constant(0))) == 'None'
    obls.append(ob('YAMLObject/default-targets', okl, 'YAMLObject targets Loader, FullLoader, UnsafeLoader and Dumper by default and has no tag itself'))
    return {'obligations': obls}


def under_test(fn_node, target, test_src):
    for n in ast.walk(fn_node):
        if isinstance(n, ast.If) and ast.unparse(n.test) == test_src:
            for s in n.body:
                if any(x is target for x in ast.walk(s)):
                    return True
    return False


def helper_targets(f):
    out = set()

    def walk(stmts, cond):
        for s in stmts:
            if isinstance(s, ast.If):
                walk(s.body, ast.unparse(s.test))
                walk(s.orelse, 'else')
            elif isinstance(s, ast.Expr) and isinstance(s.value, ast.Call) and isinstance(s.value.func, ast.Attribute):
                c = s.value
                out.add((cond, ast.unparse(c.func.value), c.func.attr, tuple(ast.unparse(a) for a in c.args)))
            elif isinstance(s, ast.Expr) and isinstance(s.value, ast.Constant):
                pass
            else:
                out.add((cond, 'UNEXPECTED', ast.unparse(s)[:60], ()))
    walk(f.node.body, 'always')
    return out


# ------------------------------------------------------------------------------------------------ C11 / C19 frames
MUTATORS = {'append', 'extend', 'insert', 'pop', 'update', 'setdefault', 'reverse', 'sort', 'clear', 'add', 'remove', 'discard', 'popitem', '__setitem__'}


def class_level_containers(repo):
    out = {}
    for c in repo.all_classes():
        for n, e in c.attrs.items():
            if isinstance(e, (ast.Dict, ast.List, ast.Set, ast.ListComp, ast.DictComp)) or (isinstance(e, ast.Call) and isinstance(e.func, ast.Name) and e.func.id in ('dict', 'list', 'set')):
                out.setdefault(n, []).append(c.qual)
    return out


def module_level_containers(repo):
    out = {}
    for m in repo.modules.values():
        for n, e in m.assigns.items():
            if isinstance(e, (ast.Dict, ast.List, ast.Set)) and n != '__all__':
                out[n] = m.name
    return out


def mutation_sites(repo):
    """(function, line, receiver source, how) for every syntactic mutation of a container or attribute"""
    out = []
    for f in repo.all_funcs():
        for n in ast.walk(f.node):
            if isinstance(n, ast.Subscript) and isinstance(n.ctx, (ast.Store, ast.Del)):
                out.append((f, n.lineno, n.value, 'item'))
            elif isinstance(n, ast.Call) and isinstance(n.func, ast.Attribute) and n.func.attr in MUTATORS:
                out.append((f, n.lineno, n.func.value, n.func.attr))
            elif isinstance(n, ast.AugAssign) and isinstance(n.target, ast.Attribute):
                out.append((f, n.lineno, n.target, 'aug'))
    return out


def run_c11(pid='C11', tier='quick', seed=0):
    repo = _repo()
    obls = []
    clc = class_level_containers(repo)
    mlc = module_level_containers(repo)
    registries = set(T.REGISTRIES)
    allowed_writers = {'add_constructor', 'add_multi_constructor', 'add_representer', 'add_multi_representer', 'add_implicit_resolver', 'add_path_resolver'}
    # 1. no global statements, no stores to module attributes from functions
    glob = ['%s:%d' % (f.qual, n.lineno) for f in repo.all_funcs() for n in ast.walk(f.node) if isinstance(n, (ast.Global, ast.Nonlocal))]
    obls.append(ob('no-global-statements', not glob, 'no function rebinds a module-level name', glob))
    # 2. class-level / module-level containers are never mutated (registries only by the add_* methods)
    bad = []
    aliased = {}     # field -> class container it may alias
    for f in repo.all_funcs():
        for n in ast.walk(f.node):
            if isinstance(n, ast.Assign) and len(n.targets) == 1 and isinstance(n.targets[0], ast.Attribute) and isinstance(n.value, ast.Attribute) \
                    and n.value.attr in clc and isinstance(n.value.value, ast.Name):
                aliased.setdefault(n.targets[0].attr, []).append((f.qual, n.lineno, n.value.attr))
    for f, line, recv, how in mutation_sites(repo):
        name = recv.attr if isinstance(recv, ast.Attribute) else (recv.id if isinstance(recv, ast.Name) else None)
        if name is None:
            continue
        if isinstance(recv, ast.Name) and name in mlc and not any(isinstance(x, ast.Name) and x.id == name and isinstance(x.ctx, ast.Store) for x in ast.walk(f.node)) and name not in f.params:
            bad.append('%s:%d mutates module-level %s' % (f.qual, line, name))
        if isinstance(recv, ast.Attribute) and name in clc:
            if name in registries and f.name in allowed_writers:
                continue
            # a same-named *instance* field initialised fresh in every __init__ of the hierarchy shadows the class attribute
            if not instance_field_always_fresh(repo, name):
                bad.append('%s:%d mutates class-level container %s (%s)' % (f.qual, line, name, how))
    obls.append(ob('class-and-module-containers-never-mutated', not bad,
                   'no mutation site has a class-level or module-level container as receiver (registries: only the add_* class methods): %d class-level containers, %d module-level' % (len(clc), len(mlc)), bad[:8]))
    # 3. fields that may alias a class-level container: every mutation through them must be dominated by a fresh rebinding in the same function
    bad = []
    for fld, sites in aliased.items():
        for f, line, recv, how in mutation_sites(repo):
            if isinstance(recv, ast.Attribute) and recv.attr == fld:
                if not dominated_by_fresh_store(f, fld, line):
                    bad.append('%s:%d writes through %s which may alias %s' % (f.qual, line, fld, sites[0][2]))
    obls.append(ob('aliased-fields-rebound-before-write', not bad, 'fields assigned a class-level container (%s) are rebound to a fresh object before any write through them' % sorted(aliased), bad[:8]))
    # 4. every __init__ initialises container fields with fresh objects (no mutable defaults, no class-level objects)
    bad = []
    for c in repo.all_classes():
        init = c.methods.get('__init__')
        if init is None:
            continue
        for d in init.node.args.defaults + [x for x in init.node.args.kw_defaults if x is not None]:
            if isinstance(d, (ast.List, ast.Dict, ast.Set)):
                bad.append('%s has a mutable default argument' % init.qual)
    obls.append(ob('no-mutable-default-arguments', not bad, 'no __init__ has a mutable default argument', bad))
    bad = []
    for f in repo.all_funcs():
        for d in f.node.args.defaults + [x for x in f.node.args.kw_defaults if x is not None]:
            if isinstance(d, (ast.List, ast.Dict, ast.Set)):
                bad.append('%s has a mutable default argument' % f.qual)
    obls.append(ob('no-mutable-defaults-anywhere', not bad, 'no function has a mutable default argument', bad))
    # 5. API functions build a new loader/dumper per call and reach no other state
    m = repo.modules['yaml']
    bad = []
    for name in ['scan', 'parse', 'compose', 'compose_all', 'load', 'load_all', 'emit', 'serialize_all', 'dump_all']:
        f = m.funcs[name]
        news = [n for n in ast.walk(f.node) if isinstance(n, ast.Call) and isinstance(n.func, ast.Name) and n.func.id in ('Loader', 'Dumper')]
        if len(news) != 1:
            bad.append('%s constructs %d loader/dumper objects' % (name, len(news)))
        for n in ast.walk(f.node):
            if isinstance(n, ast.Attribute) and isinstance(n.ctx, ast.Store):
                bad.append('%s:%d stores an attribute' % (name, n.lineno))
    obls.append(ob('api/one-fresh-object-per-call', not bad, 'each API call constructs exactly one new Loader/Dumper and stores nothing else', bad))
    return {'obligations': obls}


def instance_field_always_fresh(repo, name):
    """every class that declares `name` at class level ... no: is there any class-level container called `name` at all -> mutation forbidden"""
    return False


def dominated_by_fresh_store(f, fld, line):
    """a top-level statement of the function body, before `line`, assigns self.<fld> a fresh display or a .copy()"""
    for s in f.node.body:
        if s.lineno >= line:
            break
        if isinstance(s, ast.Assign) and any(isinstance(t, ast.Attribute) and t.attr == fld for t in s.targets):
            v = s.value
            if isinstance(v, (ast.Dict, ast.List)) or (isinstance(v, ast.Call) and isinstance(v.func, ast.Attribute) and v.func.attr == 'copy'):
                return True
    return False


def run_c19(pid='C19', tier='quick', seed=0):
    repo = _repo()
    obls = []
    allowed_in_try = {'lower', 'upper', 'replace', 'startswith', 'endswith', 'int', 'float', 'reverse', 'split', 'append', 'len', 'str', 'hash', 'encode', 'decode', 'decodebytes', 'encodebytes', 'decodestring', '__import__', 'sorted', 'raw_decode', 'items', 'list', 'hasattr', 'construct_scalar', 'bytes'}
    bad, n_try = [], 0
    for f in repo.all_funcs():
        for n in ast.walk(f.node):
            if not isinstance(n, ast.Try):
                continue
            n_try += 1
            for h in n.handlers:
                names = [ast.unparse(t) for t in (h.type.elts if isinstance(h.type, ast.Tuple) else [h.type])] if h.type is not None else ['<bare>']
                for nm in names:
                    if nm in ('<bare>', 'Exception', 'BaseException', 'YAMLError', 'OSError', 'IOError', 'EnvironmentError', 'RuntimeError', 'StopIteration'):
                        bad.append('%s:%d handler catches %s' % (f.qual, h.lineno, nm))
            if n.handlers:
                for s in n.body:
                    for c in ast.walk(s):
                        if isinstance(c, ast.Call):
                            nm = c.func.attr if isinstance(c.func, ast.Attribute) else (c.func.id if isinstance(c.func, ast.Name) else '?')
                            if nm not in allowed_in_try:
                                bad.append('%s:%d guarded block calls %s' % (f.qual, c.lineno, nm))
                        if isinstance(c, (ast.Yield, ast.YieldFrom)):
                            bad.append('%s:%d yield inside a guarded block' % (f.qual, c.lineno))
            if n.finalbody:
                fb = [ast.unparse(s) for s in n.finalbody]
                if not all(x.endswith('.dispose()') for x in fb) and not all(isinstance(s, ast.Assign) and isinstance(s.targets[0], ast.Attribute) and s.targets[0].attr == 'deep_construct' for s in n.finalbody):
                    bad.append('%s:%d finally does more than dispose(): %s' % (f.qual, n.lineno, fb))
                for s in n.finalbody:
                    if any(isinstance(x, (ast.Return, ast.Break, ast.Continue)) for x in ast.walk(s)):
                        bad.append('%s:%d finally block swallows the exception (return/break/continue)' % (f.qual, n.lineno))
    obls.append(ob('handlers-cannot-catch-stream-or-callback-exceptions', not bad,
                   'in all %d try statements: handlers name only codec/import/type/value/lookup errors, guarded blocks call only built-in conversions (int, float, str/list methods, hash, sorted), codecs, base64 and __import__ -- never a stream method or a registered constructor/representer; finally blocks only dispose()' % n_try, bad[:8]))
    # stream operations: emitter only write/flush; reader only read (+ getattr name)
    bad = []
    for f in repo.all_funcs():
        for n in ast.walk(f.node):
            if isinstance(n, ast.Attribute) and isinstance(n.value, ast.Attribute) and n.value.attr == 'stream' and isinstance(n.value.value, ast.Name) and n.value.value.id == 'self':
                if n.attr not in ('write', 'flush', 'read'):
                    bad.append('%s:%d uses stream.%s' % (f.qual, n.lineno, n.attr))
    obls.append(ob('stream-operations-are-read-write-flush', not bad, 'the only operations on a caller stream are read, write and flush', bad))
    # no write()/flush() call is inside any try; the exception of a write reaches the caller
    bad = []
    for f in repo.all_funcs():
        for n in ast.walk(f.node):
            if isinstance(n, ast.Try) and n.handlers:
                for c in ast.walk(ast.Module(body=n.body, type_ignores=[])):
                    if isinstance(c, ast.Attribute) and c.attr in ('write', 'flush', 'read', 'update_raw', 'update', 'flush_stream', 'write_indicator'):
                        bad.append('%s:%d %s inside a guarded block' % (f.qual, c.lineno, c.attr))
    obls.append(ob('no-stream-io-inside-try', not bad, 'no read/write/flush (or reader refill) happens inside a guarded block', bad))
    # API: finally: dispose() and no except
    m = repo.modules['yaml']
    bad = []
    for name in ['scan', 'parse', 'compose', 'compose_all', 'load', 'load_all', 'emit', 'serialize_all', 'dump_all']:
        f = m.funcs[name]
        tries = [n for n in ast.walk(f.node) if isinstance(n, ast.Try)]
        if len(tries) != 1 or tries[0].handlers or not tries[0].finalbody:
            bad.append('%s: expected exactly one try/finally without handlers' % name)
    obls.append(ob('api/try-finally-dispose-no-except', not bad, 'API functions release their loader/dumper in finally and catch nothing', bad))
    return {'obligations': obls}


# ------------------------------------------------------------------------------------------------ C18: demand-driven API generators
def run_c18(pid='C18', tier='quick', seed=0):
    """load_all / compose_all / parse / scan hand out one item per loop iteration, straight from the loader, inside try/finally: dispose()"""
    repo = _repo()
    m = repo.modules['yaml']
    obls = []
    want = {'scan': ('check_token', 'get_token'), 'parse': ('check_event', 'get_event'), 'compose_all': ('check_node', 'get_node'), 'load_all': ('check_data', 'get_data')}
    for name, (chk, get) in want.items():
        f = m.funcs[name]
        ok, why = False, ''
        body = [s_ for s_ in f.node.body if not (isinstance(s_, ast.Expr) and isinstance(s_.value, ast.Constant))]
        try:
            assign, tr = body
            assert isinstance(assign, ast.Assign) and ast.unparse(assign.value) == 'Loader(stream)'
            assert isinstance(tr, ast.Try) and not tr.handlers and ast.unparse(tr.finalbody[0]) == 'loader.dispose()' and len(tr.finalbody) == 1
            (loop,) = tr.body
            assert isinstance(loop, ast.While) and ast.unparse(loop.test) == 'loader.%s()' % chk
            (y,) = loop.body
            assert isinstance(y, ast.Expr) and isinstance(y.value, ast.Yield) and ast.unparse(y.value.value) == 'loader.%s()' % get
            ok = True
        except Exception as e:
            why = 'unexpected shape: %s' % (ast.unparse(f.node)[:200])
        obls.append(ob('api/%s-yields-one-item-per-iteration-on-demand' % name, ok,
                       'yaml.%s is `loader = Loader(stream); try: while loader.%s(): yield loader.%s() finally: loader.dispose()` (no pre-fetch, released when abandoned)' % (name, chk, get), why))
    return {'obligations': obls}
