"""Module-initialisation run of the registries (DESIGN 5/C01.1, C04.1, C10).

The module bodies of constructor.py / representer.py / resolver.py are executed as a sequence of
`X.add_*(key, value)` calls *using the proved copy-on-write contract* of those class methods over the MRO
computed from the real class statements.  The resulting effective tables of every shipped class are compared
with tables written here from the property text.  Finite, decided by evaluation (backend 'table-eval').
"""
import ast, os, re, time
from ..source import repo as _repo, ClassInfo, FuncInfo
from .. import REPO

Y = 'tag:yaml.org,2002:'
CORE12 = {Y + t for t in ['null', 'bool', 'int', 'float', 'binary', 'timestamp', 'omap', 'pairs', 'set', 'str', 'seq', 'map']}
PYVALUE12 = {Y + 'python/' + t for t in ['none', 'bool', 'str', 'unicode', 'bytes', 'int', 'long', 'float', 'complex', 'list', 'tuple', 'dict']}
FULL_MULTI = {Y + 'python/name:'}
INSTANTIATING = {Y + 'python/' + t for t in ['module:', 'object:', 'object/new:', 'object/apply:']}
SAFE_TYPES = {'type(None)', 'str', 'bytes', 'bool', 'int', 'float', 'list', 'tuple', 'dict', 'set', 'datetime.date', 'datetime.datetime', 'None'}
REGISTRIES = ['yaml_constructors', 'yaml_multi_constructors', 'yaml_representers', 'yaml_multi_representers',
              'yaml_implicit_resolvers', 'yaml_path_resolvers']
ADDERS = {'add_constructor': 'yaml_constructors', 'add_multi_constructor': 'yaml_multi_constructors',
          'add_representer': 'yaml_representers', 'add_multi_representer': 'yaml_multi_representers',
          'add_implicit_resolver': 'yaml_implicit_resolvers', 'add_path_resolver': 'yaml_path_resolvers'}


class Tables:
    def __init__(self, repo):
        self.repo = repo
        self.own = {}        # (class qual, registry) -> dict (insertion ordered)
        self.problems = []

    def lookup_owner(self, cls, reg):
        for k in cls.mro:
            if isinstance(k, ClassInfo) and (k.qual, reg) in self.own:
                return k
        return None

    def view(self, cls, reg):
        o = self.lookup_owner(cls, reg)
        return None if o is None else self.own[(o.qual, reg)]

    def cow_add(self, cls, reg, key, val):
        """the contract of the add_* class methods (proved in contracts/registries.py)"""
        if (cls.qual, reg) not in self.own:
            inherited = self.view(cls, reg)
            if inherited is None:
                self.problems.append('%s has no %s to inherit' % (cls.qual, reg))
                inherited = {}
            if reg == 'yaml_implicit_resolvers':
                self.own[(cls.qual, reg)] = {k: list(v) for k, v in inherited.items()}
            else:
                self.own[(cls.qual, reg)] = dict(inherited)
        if reg == 'yaml_implicit_resolvers':
            tag, rx, first = val
            for ch in (first if first is not None else [None]):
                self.own[(cls.qual, reg)].setdefault(ch, []).append((tag, rx))
        else:
            self.own[(cls.qual, reg)][key] = val

    def run_module(self, m):
        for st in m.tree.body:
            if isinstance(st, ast.ClassDef):
                ci = m.classes[st.name]
                for s in st.body:
                    if isinstance(s, ast.Assign):
                        for t in s.targets:
                            if isinstance(t, ast.Name) and t.id in REGISTRIES:
                                if isinstance(s.value, ast.Dict) and not s.value.keys:
                                    self.own[(ci.qual, t.id)] = {}
                                else:
                                    self.problems.append('%s.%s initialised with a non-empty expression' % (ci.qual, t.id))
                                    self.own[(ci.qual, t.id)] = {'?': ast.unparse(s.value)}
                    # registrations inside class bodies are not expected
                    for n in ast.walk(s) if not isinstance(s, ast.FunctionDef) else []:
                        if isinstance(n, ast.Call) and isinstance(n.func, ast.Attribute) and n.func.attr in ADDERS:
                            self.problems.append('registration inside class body of %s' % ci.qual)
            elif isinstance(st, ast.Expr) and isinstance(st.value, ast.Call) and isinstance(st.value.func, ast.Attribute) \
                    and st.value.func.attr in ADDERS and isinstance(st.value.func.value, ast.Name):
                c = st.value
                target = self.repo.lookup(m.name, c.func.value.id)
                if not isinstance(target, ClassInfo):
                    self.problems.append('%s: registration on unknown target %s' % (m.name, ast.unparse(c.func.value)))
                    continue
                reg = ADDERS[c.func.attr]
                args = c.args
                if reg == 'yaml_implicit_resolvers':
                    tag = self.const(args[0], m)
                    try:
                        a2 = args[2]
                        if isinstance(a2, ast.Call) and isinstance(a2.func, ast.Name) and a2.func.id == 'list' and len(a2.args) == 1:
                            first = list(ast.literal_eval(a2.args[0]))
                        else:
                            first = ast.literal_eval(a2)
                    except Exception:
                        first = '?'
                        self.problems.append('%s: non-literal first list at line %d' % (m.name, st.lineno))
                    self.cow_add(target, reg, None, (tag, ast.unparse(args[1]), first))
                else:
                    self.cow_add(target, reg, self.const(args[0], m), self.value_ref(args[1], m))
            elif isinstance(st, (ast.FunctionDef, ast.Import, ast.ImportFrom)):
                continue
            else:
                # any other top-level statement must not mention a registry or an adder
                for n in ast.walk(st):
                    if (isinstance(n, ast.Attribute) and (n.attr in ADDERS or n.attr in REGISTRIES)) or \
                            (isinstance(n, ast.Name) and n.id in REGISTRIES):
                        self.problems.append('%s line %d: unrecognised top-level statement touches a registry' % (m.name, st.lineno))
                        break

    def const(self, e, m):
        try:
            return ast.literal_eval(e)
        except Exception:
            return ast.unparse(e)

    def value_ref(self, e, m):
        """X.method -> qualified function name resolved through X's MRO"""
        if isinstance(e, ast.Attribute) and isinstance(e.value, ast.Name):
            c = self.repo.lookup(m.name, e.value.id)
            if isinstance(c, ClassInfo):
                f = self.repo.find_method(c, e.attr)
                if f is not None:
                    return f.qual
        return 'expr:' + ast.unparse(e)


def ob(name, ok, detail, witness=None, t0=None):
    return {'name': 'tables/' + name, 'kind': 'proof', 'verdict': 'proved' if ok else 'refuted', 'backend': 'table-eval',
            'seconds': round(time.time() - t0, 4) if t0 else 0.0, 'detail': detail, 'model': None, 'witness': witness,
            'note': 'uses the proved COW contract of the add_* class methods'}


def pyx_defined_names():
    p = os.path.join(REPO, 'yaml', '_yaml.pyx')
    try:
        text = open(p, encoding='utf-8').read()
    except Exception:
        return None
    return set(re.findall(r'^\s*(?:def|cdef\s+\w*|cpdef\s+\w*)\s+(\w+)\s*\(', text, re.M)) | set(re.findall(r'^\s+(yaml_\w+)\s*=', text, re.M))


def run(pid='C01', tier='quick', seed=0):
    t0 = time.time()
    repo = _repo()
    T = Tables(repo)
    order = ['yaml.error', 'yaml.tokens', 'yaml.events', 'yaml.nodes', 'yaml.reader', 'yaml.scanner', 'yaml.parser', 'yaml.composer',
             'yaml.constructor', 'yaml.resolver', 'yaml.loader', 'yaml.emitter', 'yaml.serializer', 'yaml.representer', 'yaml.dumper',
             'yaml.cyaml', 'yaml']
    for mn in order:
        T.run_module(repo.modules[mn])
    obls = []
    obls.append(ob('module-init/recognised', not T.problems, 'every top-level statement that touches a registry is a plain X.add_*(literal, X.method) call', T.problems[:5], t0))

    def eff(q, reg):
        return T.view(repo.cls(q), reg)

    def keys(q, reg):
        v = eff(q, reg)
        return None if v is None else set(v.keys())

    safe = ['yaml.loader.SafeLoader', 'yaml.cyaml.CSafeLoader']
    base = ['yaml.loader.BaseLoader', 'yaml.cyaml.CBaseLoader']
    full = ['yaml.loader.FullLoader', 'yaml.cyaml.CFullLoader']
    unsafe = ['yaml.loader.UnsafeLoader', 'yaml.loader.Loader', 'yaml.cyaml.CUnsafeLoader', 'yaml.cyaml.CLoader']
    if pid in ('C01', 'C10'):
        for q in safe:
            k = keys(q, 'yaml_constructors')
            obls.append(ob('%s/constructor-keys' % q, k == CORE12 | {None}, 'effective yaml_constructors keys == YAML 1.1 core tags + default', sorted(map(str, (k or set()) ^ (CORE12 | {None}))), t0))
            mk = keys(q, 'yaml_multi_constructors')
            obls.append(ob('%s/no-multi-constructors' % q, mk == set(), 'effective yaml_multi_constructors is empty', sorted(map(str, mk or [])), t0))
            v = eff(q, 'yaml_constructors') or {}
            obls.append(ob('%s/default-is-undefined' % q, v.get(None) == 'yaml.constructor.SafeConstructor.construct_undefined',
                           'the default constructor rejects the node', v.get(None), t0))
            bad = {str(k_): f for k_, f in v.items() if not str(f).startswith('yaml.constructor.SafeConstructor.')}
            obls.append(ob('%s/values-are-safe-constructors' % q, not bad, 'every registered constructor is a method defined in SafeConstructor', bad, t0))
            sc = repo.cls('yaml.constructor.SafeConstructor')
            mro_ok = repo.find_method(repo.cls(q), 'construct_object').qual == 'yaml.constructor.BaseConstructor.construct_object' and \
                all(repo.find_method(repo.cls(q), f.split('.')[-1]) is not None and repo.find_method(repo.cls(q), f.split('.')[-1]).qual == f for f in v.values())
            obls.append(ob('%s/methods-not-overridden' % q, mro_ok, 'the class resolves every registered constructor and construct_object to the SafeConstructor/BaseConstructor definitions', None, t0))
        for q in base:
            obls.append(ob('%s/no-constructors' % q, keys(q, 'yaml_constructors') == set() and keys(q, 'yaml_multi_constructors') == set(),
                           'base loaders have empty constructor tables', None, t0))
        # tag -> expected constructor (the YAML 1.1 meaning of each core tag), written from the property
        expect = {'null': 'construct_yaml_null', 'bool': 'construct_yaml_bool', 'int': 'construct_yaml_int', 'float': 'construct_yaml_float',
                  'binary': 'construct_yaml_binary', 'timestamp': 'construct_yaml_timestamp', 'omap': 'construct_yaml_omap',
                  'pairs': 'construct_yaml_pairs', 'set': 'construct_yaml_set', 'str': 'construct_yaml_str', 'seq': 'construct_yaml_seq',
                  'map': 'construct_yaml_map'}
        v = eff('yaml.loader.SafeLoader', 'yaml_constructors') or {}
        wrong = {t: v.get(Y + t) for t, f in expect.items() if v.get(Y + t) != 'yaml.constructor.SafeConstructor.' + f}
        obls.append(ob('SafeLoader/tag-to-constructor', not wrong, 'each core tag is bound to the constructor of its own type', wrong, t0))
    if pid in ('C04', 'C10'):
        for q in full:
            k = keys(q, 'yaml_constructors')
            obls.append(ob('%s/constructor-keys' % q, k == CORE12 | PYVALUE12 | {None}, 'effective yaml_constructors keys == core + python value tags + default', sorted(map(str, (k or set()) ^ (CORE12 | PYVALUE12 | {None}))), t0))
            mk = keys(q, 'yaml_multi_constructors')
            obls.append(ob('%s/multi-keys' % q, mk == FULL_MULTI, 'only python/name: is a multi-constructor prefix', sorted(map(str, (mk or set()) ^ FULL_MULTI)), t0))
            obls.append(ob('%s/no-instantiating-prefix' % q, not ((mk or set()) & INSTANTIATING) and not any(str(x).startswith(tuple(INSTANTIATING)) for x in (k or [])), 'python/object*, python/module are absent', None, t0))
            v = dict(eff(q, 'yaml_constructors') or {})
            v.update(eff(q, 'yaml_multi_constructors') or {})
            allowed_fns = {'construct_yaml_null', 'construct_yaml_bool', 'construct_python_str', 'construct_python_unicode', 'construct_python_bytes',
                           'construct_yaml_int', 'construct_python_long', 'construct_yaml_float', 'construct_python_complex', 'construct_yaml_seq',
                           'construct_python_tuple', 'construct_yaml_map', 'construct_python_name', 'construct_undefined',
                           'construct_yaml_binary', 'construct_yaml_timestamp', 'construct_yaml_omap', 'construct_yaml_pairs', 'construct_yaml_set',
                           'construct_yaml_str'}
            bad = {str(t): f for t, f in v.items() if str(f).split('.')[-1] not in allowed_fns or not str(f).startswith(('yaml.constructor.SafeConstructor.', 'yaml.constructor.FullConstructor.'))}
            obls.append(ob('%s/values-are-value-constructors' % q, not bad, 'every registered constructor builds plain data, tuples, complex numbers or looks up a name', bad, t0))
            obls.append(ob('%s/default-is-undefined' % q, v.get(None) == 'yaml.constructor.SafeConstructor.construct_undefined', 'unknown tags are rejected', v.get(None), t0))
            c = repo.cls(q)
            for nm in ['find_python_name', 'find_python_module', 'make_python_instance', 'set_python_instance_state']:
                f = repo.find_method(c, nm)
                obls.append(ob('%s/%s-not-unsafe-override' % (q, nm), f is not None and f.qual == 'yaml.constructor.FullConstructor.' + nm,
                               'the full loader must not inherit UnsafeConstructor overrides', f.qual if f else None, t0))
    if pid == 'C10':
        for q in unsafe:
            mk = keys(q, 'yaml_multi_constructors')
            obls.append(ob('%s/multi-keys' % q, mk == FULL_MULTI | INSTANTIATING, 'unsafe loaders add the four instantiating prefixes', sorted(map(str, (mk or set()) ^ (FULL_MULTI | INSTANTIATING))), t0))
        for q in ['yaml.dumper.SafeDumper', 'yaml.cyaml.CSafeDumper']:
            v = eff(q, 'yaml_representers') or {}
            obls.append(ob('%s/representer-keys' % q, set(map(str, v.keys())) == SAFE_TYPES, 'SafeDumper represents exactly the safe types + default', sorted(set(map(str, v.keys())) ^ SAFE_TYPES), t0))
            obls.append(ob('%s/no-multi-representers' % q, keys(q, 'yaml_multi_representers') == set(), 'SafeDumper has no multi representers', None, t0))
            bad = {str(k_): f for k_, f in v.items() if not str(f).startswith('yaml.representer.SafeRepresenter.')}
            obls.append(ob('%s/values-are-safe-representers' % q, not bad, 'every representer is defined in SafeRepresenter', bad, t0))
        for q in ['yaml.dumper.BaseDumper', 'yaml.cyaml.CBaseDumper']:
            obls.append(ob('%s/no-representers' % q, keys(q, 'yaml_representers') == set() and keys(q, 'yaml_multi_representers') == set(), 'base dumpers have empty tables', None, t0))
        # loader and dumper of one family share the resolver tables (C02 lemma relies on it)
        for a, b in [('yaml.loader.SafeLoader', 'yaml.dumper.SafeDumper'), ('yaml.loader.FullLoader', 'yaml.dumper.Dumper'), ('yaml.cyaml.CSafeLoader', 'yaml.cyaml.CSafeDumper')]:
            oa = T.lookup_owner(repo.cls(a), 'yaml_implicit_resolvers')
            ob_ = T.lookup_owner(repo.cls(b), 'yaml_implicit_resolvers')
            obls.append(ob('%s+%s/same-implicit-resolvers' % (a.split('.')[-1], b.split('.')[-1]), oa is ob_ and oa is not None, 'loader and dumper resolve through the same table object', None, t0))
        for q in base + ['yaml.dumper.BaseDumper']:
            obls.append(ob('%s/no-implicit-resolvers' % q, keys(q, 'yaml_implicit_resolvers') == set(), 'base classes resolve nothing implicitly', None, t0))
        # linear(name): each shipped class mixes in exactly one registry-bearing chain per registry
        for c in repo.all_classes():
            if c.module.name not in ('yaml.loader', 'yaml.dumper', 'yaml.cyaml'):
                continue
            for reg in REGISTRIES:
                owners = [k for k in c.mro if isinstance(k, ClassInfo) and (k.qual, reg) in T.own]
                chain_ok = all(owners[i + 1] in owners[i].mro for i in range(len(owners) - 1))
                obls.append(ob('%s/linear/%s' % (c.qual, reg), chain_ok, 'the owners of %s along the MRO form a single-inheritance chain' % reg, [o.qual for o in owners], t0))
    # C classes: the Cython base must not define registry or constructor names (read off the .pyx text)
    names = pyx_defined_names()
    if names is not None:
        clash = sorted(n for n in names if n in REGISTRIES or n in ADDERS or n.startswith('construct_') or n.startswith('represent_') or n in ('flatten_mapping', 'find_python_name', 'find_python_module', 'make_python_instance'))
        obls.append(ob('cyaml/pyx-defines-no-registry-or-constructor-name', not clash, 'CParser/CEmitter (text scan of yaml/_yaml.pyx) define none of the registry, construct_* or represent_* names', clash, t0))
    # registry writers are closed: only the add_* methods write the registries
    writers = registry_writers(repo)
    allowed = {'yaml.constructor.BaseConstructor.add_constructor', 'yaml.constructor.BaseConstructor.add_multi_constructor',
               'yaml.representer.BaseRepresenter.add_representer', 'yaml.representer.BaseRepresenter.add_multi_representer',
               'yaml.resolver.BaseResolver.add_implicit_resolver', 'yaml.resolver.BaseResolver.add_path_resolver'}
    # set_python_instance_state does setattr(instance, key, value) on a freshly constructed instance (unsafe loaders only;
    # unreachable from the safe/full tables, see the reachability obligations of C01/C04)
    allowed_generic_setattr = {'yaml.constructor.FullConstructor.set_python_instance_state'}
    extra = sorted(set(writers) - allowed - allowed_generic_setattr)
    obls.append(ob('registry-writers-closed', not extra, 'no function other than the six add_* class methods stores into a registry', extra, t0))
    callers = adder_callers(repo)
    allowed_callers = {'yaml.add_implicit_resolver', 'yaml.add_path_resolver', 'yaml.add_constructor', 'yaml.add_multi_constructor',
                       'yaml.add_representer', 'yaml.add_multi_representer', 'yaml.YAMLObjectMetaclass.__init__'}
    extra = sorted(set(callers) - allowed_callers)
    obls.append(ob('adder-callers-closed', not extra, 'inside functions, only the yaml.add_* helpers and the YAMLObject metaclass call add_*', extra, t0))
    return {'obligations': obls, 'solver_seconds': 0.0}


def registry_writers(repo):
    out = []
    for f in repo.all_funcs():
        for n in ast.walk(f.node):
            hit = False
            if isinstance(n, ast.Attribute) and n.attr in REGISTRIES and isinstance(n.ctx, (ast.Store, ast.Del)):
                hit = True
            if isinstance(n, ast.Subscript) and isinstance(n.ctx, (ast.Store, ast.Del)) and isinstance(n.value, ast.Attribute) and n.value.attr in REGISTRIES:
                hit = True
            if isinstance(n, ast.Call) and isinstance(n.func, ast.Attribute) and n.func.attr in ('update', 'pop', 'clear', 'setdefault', 'popitem', '__setitem__', '__delitem__') \
                    and isinstance(n.func.value, ast.Attribute) and n.func.value.attr in REGISTRIES:
                hit = True
            if isinstance(n, ast.Call) and isinstance(n.func, ast.Name) and n.func.id in ('setattr', 'delattr'):
                hit = hit or any(isinstance(a, ast.Constant) and a.value in REGISTRIES for a in n.args) or not all(isinstance(a, ast.Constant) for a in n.args[1:2])
            if hit:
                out.append(f.qual)
                break
    return out


def adder_callers(repo):
    out = []
    for f in repo.all_funcs():
        for n in ast.walk(f.node):
            if isinstance(n, ast.Call) and isinstance(n.func, ast.Attribute) and n.func.attr in ADDERS:
                out.append(f.qual)
                break
    return out
