"""Verify one function against its contract: build the entry state, run the body, emit and discharge obligations."""
import ast, time, os, subprocess, tempfile, traceback, fnmatch
import z3
from .z3v import *
from .source import ClassInfo, FuncInfo
from .spec import REG, Contract
from .symex import Exec, World, State, Val, OutOfSubset, Obligation, fresh_v, fresh_name
from .stmts import Runner
from . import calls


class FunctionResult:
    def __init__(self, qual):
        self.qual = qual
        self.obligations = []      # dicts
        self.error = None          # engine error text (exit 3), never a violation
        self.out_of_subset = None
        self.paths = 0
        self.solver_seconds = 0.0
        self.symex_seconds = 0.0
        self.builtins = []
        self.notes = []


def pick_ctx(world, finfo, contract):
    """the concrete shipped class in whose MRO self.<name> is resolved"""
    if contract.ctx:
        return world.repo.cls(contract.ctx)
    if finfo.cls is None:
        return None
    prefer = ['yaml.loader.SafeLoader', 'yaml.dumper.SafeDumper', 'yaml.loader.Loader', 'yaml.dumper.Dumper']
    for q in prefer:
        c = world.repo.cls(q)
        if finfo.cls in c.mro:
            return c
    return finfo.cls


def resolution_family_ok(world, finfo, ctx):
    """every shipped concrete class that includes finfo.cls resolves each self.<method> call to the same function"""
    bad = []
    if finfo.cls is None or ctx is None:
        return bad
    names = set()
    for n in ast.walk(finfo.node):
        if isinstance(n, ast.Call) and isinstance(n.func, ast.Attribute) and isinstance(n.func.value, ast.Name) and n.func.value.id == 'self':
            names.add(n.func.attr)
    shipped = [c for c in world.repo.all_classes() if c.module.name in ('yaml.loader', 'yaml.dumper') and finfo.cls in c.mro]
    for nm in sorted(names):
        ref = world.repo.find_method(ctx, nm)
        for c in shipped:
            m = world.repo.find_method(c, nm)
            if m is not ref and not (m is not None and ref is not None and REG.contracts.get(m.qual) is not None and REG.contracts.get(ref.qual) is not None and m.cls in ref.cls.mro + [ref.cls] if False else False):
                if m is None or ref is None or m.qual != ref.qual:
                    # allowed when the override has the same contract text (override refines nothing observable)
                    bad.append((nm, c.qual, m.qual if m else None, ref.qual if ref else None))
    return bad


def entry_state(ex, finfo, contract):
    st = State()
    st.alloc = z3.Int('alloc0')
    st.assume(st.alloc >= 0)
    names = finfo.params
    for k, n in enumerate(names):
        ty = contract.params.get(n)
        if k == 0 and finfo.cls is not None and not finfo.is_staticmethod and n in ('self',):
            v = Val(fresh_v('self'), ex.ctx if ex.ctx is not None else finfo.cls)
            st.assume(is_r(v.t))
            st.assume(rv(v.t) >= 0)
            st.assume(rv(v.t) < st.alloc)
            ids = sorted({ex.w.class_id(c.qual) for c in ex.repo.subclasses(finfo.cls) if c.module.name in ('yaml.loader', 'yaml.dumper', 'yaml.cyaml')} | {ex.w.class_id(finfo.cls.qual)})
            st.assume(z3.Or(*[typ(rv(v.t)) == i for i in ids]))
        else:
            v = Val(fresh_v(n), ex.static_ty(ty) if ty else None)
            if ty:
                st.assume(ex.type_pred(ty, v.t, st))
            st.assume(z3.Implies(is_r(v.t), rv(v.t) < st.alloc))
        st.env[n] = v
    return st


def verify_function(world, qual, timeout_ms=10000):
    t0 = time.time()
    res = FunctionResult(qual)
    contract = REG.contracts[qual]
    finfo = world.repo.func(qual.split('#')[0])      # 'f#name' = a second contract of f (callers use the one registered under 'f')
    ctx = pick_ctx(world, finfo, contract)
    ex = Exec(world, finfo, contract, ctx_cls=ctx, solver_timeout_ms=timeout_ms, prefix=qual)
    calls.USED_BUILTINS.clear()
    calls.USED_TRUSTED.clear()
    try:
        st = entry_state(ex, finfo, contract)
        for r in contract.axioms:
            st.assume(ex.spec(r, st))
        for r in contract.requires:
            st.assume(ex.spec(r, st))
        ex.entry = st.fork()
        ex.prove('cover/requires', st.pc, z3.BoolVal(False), kind='cover', detail='the precondition is satisfiable')
        bad = resolution_family_ok(world, finfo, ctx)
        ex.prove('resolution-family', [], z3.BoolVal(not bad), detail='self.<method> resolves identically in all shipped classes: %s' % (bad[:3],))
        if contract.at_yield and not finfo.is_generator:
            ex.prove('yields-exactly-once', [], z3.BoolVal(False), detail='the contract is that of a two-phase generator (the container must exist before its children are constructed); the function has no yield')
        run = Runner(ex)
        outs = run.block(finfo.node.body, st.fork())
        outs = run.drain() + outs
        res.paths = len(outs)
        for k, (anchor, _) in enumerate(getattr(contract, 'cuts', [])):
            if k not in getattr(ex, 'cuts_seen', set()):
                ex.prove('cut/%d/anchor' % k, [], z3.BoolVal(False), detail='no statement starts with %r any more: the contract no longer fits the code' % anchor)
        check_exits(ex, contract, finfo, outs)
    except OutOfSubset as e:
        res.out_of_subset = str(e)
        ex.prove('in-subset', [], z3.BoolVal(False), detail=str(e))
    except Exception:
        res.error = traceback.format_exc()
        return res
    res.symex_seconds = time.time() - t0
    known = known_patterns()
    for ob in ex.obls:
        if ob.kind == 'proof' and any(fnmatch.fnmatch(ob.name, pat) for pat in known):
            # a listed finding: one short attempt is enough to see whether it is still there
            solve_one(ob, 4000)
            if ob.verdict == 'undecided':
                ob.note = (ob.note or '') + ' (listed finding: short budget, no retry)'
                ob.known_budget = True
    discharge(ex.obls, timeout_ms)
    # one retry with a tripled budget for what stayed undecided (solver budgets must not flip verdicts under load)
    for ob in ex.obls:
        if os.environ.get('PYVC_NO_RETRY'):
            break        # development runs against seeded changes: an undecided obligation is already the signal
        if ob.verdict == 'undecided' and not getattr(ob, 'known_budget', False):
            for factor in (3, 6):
                first = ob.seconds
                ob.verdict = None
                solve_one(ob, timeout_ms * factor)
                ob.note = (ob.note or '') + ' (retry x%d after %.1fs undecided)' % (factor, first)
                ob.seconds += first
                if ob.verdict != 'undecided':
                    break
    # reachability covers are existential: a loop body / the precondition must be reachable on SOME path through the function
    reach = {}
    for ob in ex.obls:
        if ob.kind == 'cover':
            reach[ob.name] = reach.get(ob.name, False) or ob.verdict == 'proved'
    for ob in ex.obls:
        if ob.kind == 'cover' and ob.verdict != 'proved' and reach.get(ob.name):
            ob.verdict, ob.note = 'proved', 'reachable on another path through the function'
    for ob in ex.obls:
        d = {'name': ob.name, 'kind': ob.kind, 'verdict': ob.verdict, 'backend': ob.backend,
             'seconds': round(ob.seconds, 4), 'detail': ob.detail, 'model': ob.model, 'note': ob.note}
        if ob.verdict == 'refuted' and getattr(ob, 'concrete', None):
            # replay the counter-model on the real function (same tree the obligations were generated from)
            from . import replay
            obs = replay.run_concrete(ob.concrete)
            d['concrete'] = ob.concrete
            d['observed'] = obs
            d['replayed'] = replay.confirms(ob.name, ob.concrete, obs)
        res.obligations.append(d)
        res.solver_seconds += ob.seconds
    res.builtins = sorted(calls.USED_BUILTINS) + ['ASSUMED CONTRACT %s: %s' % (q, w) for q, w in sorted(calls.USED_TRUSTED.items())]
    return res


def known_patterns():
    import json
    from . import VERIF
    try:
        d = json.load(open(os.path.join(VERIF, 'known_findings.json')))
        return [f['obligation'] for f in d.get('findings', []) if f.get('status') == 'known']
    except Exception:
        return []


def allowed_exc(world, contract, exc):
    if exc == 'ANY':
        return contract.raises_any
    return any(world.exc_is_sub(exc, a) or (a in ('ANY',)) for a in contract.raises) or (contract.raises_any and False)


def check_exits(ex, contract, finfo, outs):
    n_normal = 0
    for o in outs:
        # in postconditions a parameter name denotes the argument value (its value at entry), even if the body reassigns it
        if o.st is not None and ex.entry is not None:
            o.st.env = dict(o.st.env)
            for pn in finfo.params:
                if pn in ex.entry.env:
                    o.st.env[pn] = ex.entry.env[pn]
        if o.kind in ('next', 'return'):
            n_normal += 1
            val = o.val if o.kind == 'return' and o.val is not None else Val(NONE, 'none')
            if contract.result:
                ex.prove('post/result-type', o.st.pc, ex.type_pred(contract.result, val.t, o.st), detail='result is %s' % contract.result)
            old_state = ex.entry
            if contract.at_yield and not finfo.is_generator:
                ex.prove('yields-exactly-once', o.st.pc, z3.BoolVal(False), detail='the contract is that of a two-phase generator, the function returns without yielding')
                continue
            if finfo.is_generator:
                # exhaustion of a two-phase generator: exactly one value was handed out; postconditions speak about the second phase
                # (old = the state at resumption) and about `yielded`
                ex.prove('yields-exactly-once', o.st.pc, z3.BoolVal('$yielded' in o.st.env), detail='every path to exhaustion passes the yield')
                if '$yielded' not in o.st.env:
                    continue
                o.st.env['yielded'] = o.st.env['$yielded']
                old_state = ex.resume_state
            for j, cl in enumerate(contract.ensures):
                label = contract.labels.get(j, str(j))
                g = ex.spec(cl, o.st, old=old_state, result=val)
                ex.prove('post/%s' % label, o.st.pc, g, detail=cl if isinstance(cl, str) else 'callable')
            check_frame(ex, contract, o.st)
        elif o.kind == 'raise':
            if allowed_exc(ex.w, contract, o.exc):
                key = None
                for a in contract.ensures_raise:
                    if ex.w.exc_is_sub(o.exc, a):
                        key = a
                if key:
                    if o.val is not None:
                        o.st.env = dict(o.st.env)
                        o.st.env['exc'] = o.val          # the exception object, for ensures_raise clauses
                    for j, cl in enumerate(contract.ensures_raise[key]):
                        ex.prove('post-raise/%s/%d' % (key.split('.')[-1], j), o.st.pc, ex.spec(cl, o.st, old=ex.entry), detail=str(cl))
                check_frame(ex, contract, o.st)
            else:
                # an exception class outside the contract: the path must be infeasible
                nm = 'raises-only/%s/%s' % (o.exc, (o.site or '').split('@')[0])
                ex.prove(nm, o.st.pc, z3.BoolVal(False), detail='%s at %s must be unreachable' % (o.exc, o.site))
        else:
            raise OutOfSubset('break/continue outside a loop')
    return n_normal


def check_frame(ex, contract, st, tag='frame/'):
    """nothing outside `modifies` changed: for every heap array that differs from the entry array, at a Skolem object"""
    entry = ex.entry
    view = State(); view.env = entry.env; view.heap = dict(entry.heap); view.pc = list(entry.pc); view.alloc = entry.alloc
    pts = calls.modifies_points(ex, contract.modifies, view, entry)
    for key, arr in st.heap.items():
        a0 = entry.heap.get(key)
        if a0 is None:
            a0 = ex.harr(entry, key)
        if arr.eq(a0):
            continue
        if any(k == key and r is None for k, r in pts):
            continue
        o = z3.Int(fresh_name('o'))
        allowed = [r for k, r in pts if k == key]
        hyp = [o < entry.alloc] + [o != r for r in allowed]
        # static objects (negative refs) are in scope of the frame too
        ex.prove('%s%s' % (tag, key.replace('f:', '')), list(st.pc) + hyp, z3.Select(arr, o) == z3.Select(a0, o),
                 detail='only %s may be modified' % (contract.modifies,))


# ----------------------------------------------------------------------------- solving
def discharge(obls, timeout_ms=10000):
    """decide every obligation.  Functions with many obligations (the scalar writers, the document-level emitter states) are split
    over a few forked children -- same queries, same budgets, only the wall time differs; a child reports `proved` / `undecided`
    verdicts, anything else (refutations, a child that died) is decided again in this process so that models and replay data exist."""
    todo = [i for i, ob in enumerate(obls) if ob.verdict is None]
    k = int(os.environ.get('PYVC_INNER_PAR', '4') or 1)
    if k > 1 and len(todo) >= int(os.environ.get('PYVC_INNER_PAR_MIN', '250')):
        import pickle
        kids = []
        for j in range(k):
            r, w = os.pipe()
            pid = os.fork()
            if pid == 0:
                os.close(r)
                out = []
                try:
                    for i in todo[j::k]:
                        ob = obls[i]
                        solve_one(ob, timeout_ms)
                        if ob.verdict in ('proved', 'undecided'):
                            out.append((i, ob.verdict, ob.backend, ob.seconds, ob.note))
                    with os.fdopen(w, 'wb') as f:
                        pickle.dump(out, f)
                finally:
                    os._exit(0)
            os.close(w)
            kids.append((pid, r))
        for pid, r in kids:
            try:
                with os.fdopen(r, 'rb') as f:
                    data = f.read()
                for i, verdict, backend, seconds, note in (pickle.loads(data) if data else []):
                    ob = obls[i]
                    ob.verdict, ob.backend, ob.seconds, ob.note = verdict, backend, seconds, note
            except Exception:
                pass
            try:
                os.waitpid(pid, 0)
            except OSError:
                pass
    for ob in obls:
        solve_one(ob, timeout_ms)


def decode_v(m, t):
    """python value of a V-sorted term in model m: (True, value) for None/bool/int/str/bytes, (False, kind) otherwise"""
    import re as _re
    v = m.eval(t, model_completion=True)
    if not z3.is_app(v):
        return False, 'unknown'
    n = v.decl().name()

    def unesc(zs):
        txt = zs.as_string()
        return _re.sub(r'\\u\{([0-9a-fA-F]+)\}', lambda mm: chr(int(mm.group(1), 16)), txt)
    if n == 'none':
        return True, None
    if n == 'b':
        return True, z3.is_true(v.arg(0))
    if n == 'i' and z3.is_int_value(v.arg(0)):
        return True, v.arg(0).as_long()
    if n == 's' and z3.is_string_value(v.arg(0)):
        return True, unesc(v.arg(0))
    if n == 'y' and z3.is_string_value(v.arg(0)):
        return True, {'bytes': [ord(c) & 255 for c in unesc(v.arg(0))]}
    return False, n


def concretize(ob, m):
    """turn a counter-model into a concrete call of the real function when parameters and receiver fields are scalars"""
    ex = getattr(ob, 'ex', None)
    if ex is None or ex.entry is None or ex.inline_depth:
        return None
    f = ex.f
    params = list(f.params)
    has_self = f.cls is not None and params and params[0] == 'self' and not f.is_staticmethod
    if f.cls is not None and not has_self:
        return None
    args = []
    approximated = []
    for p in (params[1:] if has_self else params):
        ok, v = decode_v(m, ex.entry.env[p].t)
        if not ok:
            ty = ex.c.params.get(p, 'any')
            if ty == 'stream':
                v = {'stream': True}
            elif ty in ('any', None) or ty.startswith('opt:'):
                v = None          # an object reference in the model: replaced by None (the replay decides whether that still reproduces)
                approximated.append(p)
            else:
                return None
        args.append(v)
    fields, defaults = {}, {}
    if has_self:
        me = ex.entry.env['self']
        ctx = ex.ctx or f.cls
        for k in ctx.mro:
            if not isinstance(k, ClassInfo):
                continue
            for name, ty in REG.fields.get(k.qual, {}).items():
                if name.startswith('g_') or name in fields or name in defaults:
                    continue
                arr = ex.entry.heap.get('f:' + name)
                if arr is None:
                    arr = ex.harr(ex.entry, 'f:' + name)
                term = z3.Select(arr, rv(me.t))
                raw = m.eval(term, model_completion=False)
                constrained = z3.is_app(raw) and raw.decl().name() in ('none', 'b', 'i', 's', 'y', 'r', 'fl')
                ok, v = decode_v(m, term) if constrained else (False, None)
                if ok:
                    fields[name] = v
                else:
                    defaults[name] = ty.replace('opt:', '')    # not fixed by the model (or an object): a neutral default of the declared kind
    clause = ob.detail if '/post/' in ob.name and isinstance(ob.detail, str) and ob.detail != 'callable' else None
    rec = {'module': f.module.name, 'cls': f.cls.name if f.cls else None, 'func': f.name, 'params': params[1:] if has_self else params,
           'args': args, 'fields': fields, 'defaults': defaults, 'clause': clause, 'approximated': approximated}
    if has_self:
        ctx = ex.ctx or f.cls
        rec['ctx_module'], rec['ctx_cls'] = ctx.module.name, ctx.name
    if clause:
        from .symex import rewrite_implies
        rec['clause_py'] = rewrite_implies(clause)
    return rec


def model_to_py(m, limit=40):
    out = {}
    try:
        for d in m.decls()[:limit]:
            nm = d.name()
            if nm.startswith(('H0_', 'alloc', 'typ')) or '!' in nm and not nm.startswith(('self', 'res_')):
                continue
            s = str(m[d])
            if len(s) < 200:
                out[nm] = s
    except Exception:
        pass
    return out


def solve_one(ob, timeout_ms):
    """Decide one obligation.  `proved` needs unsat of (hypotheses and not goal) from some back end; every stage is sound for
    unsat: hypotheses are only dropped or instantiated, the goal is only Skolemised and split into its conjuncts.
    `refuted` needs a model of the full query; anything else is `undecided`."""
    if ob.verdict is not None:
        return
    t = time.time()
    gf = getattr(ob, 'global_facts', None)
    if gf:
        have = {f.get_id() for f in ob.pc}
        ob.pc = list(ob.pc) + [f for f in gf if f.get_id() not in have]
        ob.global_facts = None
    if ob.kind == 'cover':
        s = z3.Solver()
        s.set('timeout', min(timeout_ms, 1500))
        s.add(*ob.pc)
        r = guarded_check(s, min(timeout_ms, 1500))
        ob.seconds = time.time() - t
        ob.backend = 'z3'
        # cover: must be satisfiable (unknown counts as reachable-not-disproved: fine for a vacuity guard)
        ob.verdict = 'proved' if r != z3.unsat else 'refuted'
        if r == z3.unsat:
            ob.note = 'vacuous: unreachable'
        return
    g = z3.simplify(ob.goal)
    if z3.is_true(g):
        ob.verdict, ob.backend, ob.seconds = 'proved', 'simplifier', time.time() - t
        return
    has_q = any_quantifier(ob.pc + [ob.goal])
    if not has_q:
        s = z3.Solver()
        s.set('timeout', int(timeout_ms))
        s.add(*ob.pc)
        s.add(z3.Not(ob.goal))
        r = guarded_check(s, int(timeout_ms))
        ob.backend = 'z3'
        if r == z3.unsat:
            ob.verdict = 'proved'
        elif r == z3.sat:
            ob.verdict, ob.model = 'refuted', model_to_py(s.model())
            try:
                ob.concrete = concretize(ob, s.model())
            except Exception:
                ob.concrete = None
        else:
            ob.verdict, ob.note = 'undecided', s.reason_unknown()
            r2 = cli_check(s, '/usr/bin/z3', timeout_ms // 1000 + 1)
            if r2 == 'unsat':
                ob.verdict, ob.backend = 'proved', 'z3-4.8.12-cli'
            elif r2 is None:
                r3 = cvc5_check(s, timeout_s=min(8, max(3, timeout_ms // 2000)))
                if r3 == 'unsat':
                    ob.verdict, ob.backend = 'proved', 'cvc5'
        ob.seconds = time.time() - t
        return
    flat_pc = flatten_and(ob.pc)
    # conjuncts of the goal that are literally among the hypotheses need no solver (callee preconditions that are the
    # caller's own, unchanged)
    have = {f.get_id() for f in flat_pc}
    rest = [g_ for g_ in flatten_and([ob.goal]) if g_.get_id() not in have]
    if not rest:
        ob.verdict, ob.backend, ob.seconds, ob.note = 'proved', 'syntactic', time.time() - t, 'goal is among the hypotheses'
        return
    goal_sk, sk = skolemize(z3.And(*rest) if len(rest) > 1 else rest[0])
    qf = [f for f in flat_pc if not any_quantifier([f])]
    parts = split_goal(goal_sk)
    notes, backends = [], set()
    verdict = 'proved'
    for c in parts:
        v, backend, note, model = solve_conjunct(ob, flat_pc, qf, c, sk, timeout_ms)
        backends.add(backend)
        if note:
            notes.append(note)
        if v == 'refuted':
            verdict, ob.model = 'refuted', model
            break
        if v == 'undecided':
            verdict = 'undecided'
            break
    ob.verdict = verdict
    ob.backend = '+'.join(sorted(b for b in backends if b)) or 'z3'
    ob.note = '; '.join(sorted(set(notes)))[:300]
    ob.seconds = time.time() - t


def split_goal(g, depth=0):
    """conjuncts of a Skolemised goal: And is split, (a -> (b and c)) becomes (a -> b), (a -> c)"""
    if depth > 8:
        return [g]
    if z3.is_and(g):
        out = []
        for c in g.children():
            out.extend(split_goal(c, depth + 1))
        return out
    if z3.is_implies(g) and (z3.is_and(g.arg(1)) or z3.is_implies(g.arg(1))):
        return [z3.Implies(g.arg(0), c) for c in split_goal(g.arg(1), depth + 1)]
    return [g]


_last_stage = ['qf']


def solve_conjunct(ob, flat_pc, qf, c, sk, timeout_ms):
    r = _solve_conjunct(ob, flat_pc, qf, c, sk, timeout_ms)
    if r[0] == 'proved' and r[2] in ('', 'inst', 'ematch', 'cli'):
        _last_stage[0] = r[2] or 'qf'
    return r


def _solve_conjunct(ob, flat_pc, qf, c, sk, timeout_ms):
    def attempt(hyps, ms, cfg=None):
        s = z3.Solver()
        s.set('timeout', int(ms))
        for kk, vv in (cfg or {}).items():
            s.set(kk, vv)
        s.add(*hyps)
        s.add(z3.Not(c))
        return guarded_check(s, int(ms)), s
    quantified_goal = any_quantifier([c])
    third = max(2500, timeout_ms // 3)
    extra = None
    if _last_stage[0] == 'ematch':
        # the stage that worked for the previous conjunct goes first
        r, s = attempt(flat_pc, third, {'smt.mbqi': False})
        if r == z3.unsat:
            return 'proved', 'z3', 'ematch', None
    if not quantified_goal:
        r, s = attempt(qf, min(1000, timeout_ms))
        if r == z3.unsat:
            return 'proved', 'z3', '', None
        extra = instances(flat_pc, c, sk, qf)
        if extra:
            if _last_stage[0] == 'cli':
                s = z3.Solver()
                s.add(*(qf + extra))
                s.add(z3.Not(c))
                if cli_check(s, '/usr/bin/z3', max(5, timeout_ms // 1000)) == 'unsat':
                    return 'proved', 'z3-4.8.12-cli', 'cli', None
            r, s = attempt(qf + extra, third)
            if r == z3.unsat:
                return 'proved', 'z3', 'inst', None
    if _last_stage[0] != 'ematch':
        r, s = attempt(flat_pc, third, {'smt.mbqi': False})
        if r == z3.unsat:
            return 'proved', 'z3', 'ematch', None
    # fresh-process back ends on the SMT-LIB text (in-process z3 is sensitive to the term history of the context)
    hyps = (qf + extra) if extra else flat_pc
    s = z3.Solver()
    s.add(*hyps)
    s.add(z3.Not(c))
    r2 = cli_check(s, '/usr/bin/z3', max(5, timeout_ms // 1000))
    if r2 == 'unsat':
        return 'proved', 'z3-4.8.12-cli', 'cli', None
    if extra:
        s = z3.Solver()
        s.add(*flat_pc)
        s.add(z3.Not(c))
        r2 = cli_check(s, '/usr/bin/z3', max(3, timeout_ms // 2000))
        if r2 == 'unsat':
            return 'proved', 'z3-4.8.12-cli', 'cli-full', None
    r, s = attempt(flat_pc, third)
    if r == z3.unsat:
        return 'proved', 'z3', 'default', None
    if r == z3.sat:
        try:
            ob.concrete = concretize(ob, s.model())
        except Exception:
            ob.concrete = None
        return 'refuted', 'z3', '', model_to_py(s.model())
    note = s.reason_unknown()
    r, s = attempt(flat_pc, third, {'smt.mbqi': False, 'smt.random_seed': 7})
    if r == z3.unsat:
        return 'proved', 'z3', 'ematch-seed7', None
    return 'undecided', 'z3', note, None


def cli_check(solver, exe, timeout_s):
    beat()
    try:
        smt = solver.to_smt2()
    except Exception:
        return None
    with tempfile.NamedTemporaryFile('w', suffix='.smt2', delete=False, dir=os.environ.get('PYVC_TMP') or None) as f:
        f.write(smt)
        path = f.name
    try:
        p = subprocess.run([exe, '-T:%d' % int(timeout_s), path], capture_output=True, text=True, timeout=timeout_s + 5)
        out = p.stdout.strip().splitlines()
        return out[0] if out and out[0] in ('sat', 'unsat') else None
    except Exception:
        return None
    finally:
        try:
            os.unlink(path)
        except OSError:
            pass


def flatten_and(fs):
    out, stack = [], list(reversed(fs))
    while stack:
        f = stack.pop()
        if z3.is_and(f):
            stack.extend(reversed(f.children()))
        else:
            out.append(f)
    return out


def skolemize(goal):
    """strip top-level universal quantifiers (also under And / the consequent of Implies) replacing bound variables by fresh constants"""
    sk = []

    def go(g, depth=0):
        if z3.is_quantifier(g) and g.is_forall():
            vs = [z3.Const(fresh_name('sk_' + g.var_name(i)), g.var_sort(i)) for i in range(g.num_vars())]
            sk.extend(vs)
            return go(z3.substitute_vars(g.body(), *reversed(vs)), depth + 1)
        if z3.is_and(g) and depth < 6:
            return z3.And(*[go(c, depth + 1) for c in g.children()])
        if z3.is_implies(g) and depth < 6:
            return z3.Implies(g.arg(0), go(g.arg(1), depth + 1))
        return g
    return go(goal), sk


_NTH_IDX = {}


def ground_terms(fs, sort, limit=90):
    """ground subterms of the given sort that occur as index of nth / key of a select / argument of an uninterpreted function
    (these are what the triggers of the hypotheses look like); later formulas first"""
    out, seen = {}, set()
    is_int = sort.eq(z3.IntSort())
    for root in reversed(fs):
        stack = [root]
        while stack and len(seen) < 60000:
            f = stack.pop()
            i = f.get_id()
            if i in seen:
                continue
            seen.add(i)
            if z3.is_quantifier(f) or not z3.is_app(f):
                continue
            kind = f.decl().kind()
            ch = f.children()
            stack.extend(ch)
            if not is_int and kind == z3.Z3_OP_SEQ_NTH and f.sort().eq(sort) and not has_var(f):
                out.setdefault(f.get_id(), f)      # an element read from a sequence is a natural instance for value-quantified facts
            if kind in (z3.Z3_OP_SEQ_NTH, z3.Z3_OP_SEQ_AT, z3.Z3_OP_SEQ_EXTRACT) or (kind == z3.Z3_OP_UNINTERPRETED and f.decl().name() in ('seq.nth_i', 'seq.nth_u')):
                cands = ch[1:2]
                if is_int and z3.is_app(ch[0]) and ch[0].decl().kind() == z3.Z3_OP_SEQ_EXTRACT and not has_var(f):
                    # element k of the slice x[a:a+l] is element a+k of x: offer a+k as an instantiation term
                    cands = cands + [ch[0].arg(1) + ch[1]]
                for c in cands:
                    if c.sort().eq(sort) and not has_var(c) and (not z3.is_int_value(c) or 0 <= c.as_long() <= 8):
                        _NTH_IDX.setdefault(c.get_id(), c)
                        if z3.is_int_value(c):
                            out.setdefault(c.get_id(), c)
            elif kind == z3.Z3_OP_SELECT:
                cands = ch[1:]
            elif kind == z3.Z3_OP_UNINTERPRETED:
                cands = ch
            else:
                continue
            for c in cands:
                if c.sort().eq(sort) and not z3.is_int_value(c) and not has_var(c):
                    if is_int and z3.is_app(c) and c.decl().kind() == z3.Z3_OP_SELECT:
                        continue      # object references used as array indices are not sequence positions
                    out.setdefault(c.get_id(), c)
        if len(out) >= limit:
            break
    return list(out.values())[:limit]


def has_var(t):
    stack, seen = [t], set()
    while stack:
        f = stack.pop()
        if f.get_id() in seen:
            continue
        seen.add(f.get_id())
        if z3.is_var(f):
            return True
        if z3.is_app(f):
            stack.extend(f.children())
    return False


def instances(pc, goal_sk, sk, qf, limit=900):
    """instances of the universally quantified hypotheses (single bound variable, also under Implies/And) at the Skolem
    constants of the goal and at the ground index terms of the goal and the quantifier-free hypotheses"""
    out = []
    cands = {}
    for c in sk:
        cands.setdefault(c.sort().name(), []).append(c)
    _NTH_IDX.clear()
    for srt in (z3.IntSort(), V):
        for g in ground_terms(qf + [goal_sk], srt):
            cands.setdefault(srt.name(), []).append(g)
    pair_cands = list(_NTH_IDX.values())[:10]

    def inst(f, guard):
        if len(out) >= limit:
            return
        if z3.is_quantifier(f) and f.is_forall() and f.num_vars() == 1:
            for c in cands.get(f.var_sort(0).name(), []):
                b = z3.substitute_vars(f.body(), c)
                out.append(z3.Implies(guard, b) if guard is not None else b)
                if len(out) >= limit:
                    return
        elif z3.is_quantifier(f) and f.is_forall() and f.num_vars() == 2 and f.var_sort(0).eq(f.var_sort(1)):
            cs = pair_cands if f.var_sort(0).eq(z3.IntSort()) else cands.get(f.var_sort(0).name(), [])[:10]
            for c1 in cs:
                for c2 in cs:
                    if c1.get_id() == c2.get_id():
                        continue
                    # de Bruijn: variable 0 is the innermost (last declared) one
                    b = z3.substitute_vars(f.body(), c2, c1)
                    out.append(z3.Implies(guard, b) if guard is not None else b)
                    if len(out) >= limit:
                        return
        elif z3.is_and(f):
            for c in f.children():
                inst(c, guard)
        elif z3.is_implies(f) and any_quantifier([f.arg(1)]) and not any_quantifier([f.arg(0)]):
            inst(f.arg(1), f.arg(0) if guard is None else z3.And(guard, f.arg(0)))
    for f in pc:
        if any_quantifier([f]):
            inst(f, None)
    return out


_aq_cache = {}


def any_quantifier(fs):
    if len(fs) == 1:
        k = fs[0].get_id()
        if k not in _aq_cache:
            _aq_cache[k] = (_any_quantifier(fs), fs[0])     # keep the ast alive so that the id is not reused
        return _aq_cache[k][0]
    return any(any_quantifier([f]) for f in fs)


def _any_quantifier(fs):
    seen = set()
    stack = list(fs)
    n = 0
    while stack and n < 20000:
        f = stack.pop()
        n += 1
        if z3.is_quantifier(f):
            return True
        i = f.get_id()
        if i in seen:
            continue
        seen.add(i)
        if z3.is_app(f):
            stack.extend(f.children())
    return False


def cvc5_check(solver, timeout_s=20):
    try:
        smt = solver.to_smt2()
    except Exception:
        return None
    smt = '(set-logic ALL)\n' + smt
    with tempfile.NamedTemporaryFile('w', suffix='.smt2', delete=False) as f:
        f.write(smt)
        path = f.name
    try:
        p = subprocess.run(['/usr/bin/cvc5', '--strings-exp', '--tlimit=%d' % (timeout_s * 1000), path],
                           capture_output=True, text=True, timeout=timeout_s + 5)
        out = p.stdout.strip().splitlines()
        return out[0] if out and out[0] in ('sat', 'unsat') else None
    except Exception:
        return None
    finally:
        os.unlink(path)
