"""Verify one function against its contract: build the entry state, run the body, emit and discharge obligations."""
import ast, time, os, subprocess, tempfile, traceback
import z3
from .z3v import *
from .source import ClassInfo, FuncInfo
from .spec import REG, Contract
from .symex import Exec, World, State, Val, OutOfSubset, Obligation, fresh_v, fresh_name
from .stmts import Runner
from . import calls


class FunctionResult:
    def __init__(self, qual):
        self.qual = qual
        self.obligations = []      # dicts
        self.error = None          # engine error text (exit 3), never a violation
        self.out_of_subset = None
        self.paths = 0
        self.solver_seconds = 0.0
        self.symex_seconds = 0.0
        self.builtins = []
        self.notes = []


def pick_ctx(world, finfo, contract):
    """the concrete shipped class in whose MRO self.<name> is resolved"""
    if contract.ctx:
        return world.repo.cls(contract.ctx)
    if finfo.cls is None:
        return None
    prefer = ['yaml.loader.SafeLoader', 'yaml.dumper.SafeDumper', 'yaml.loader.Loader', 'yaml.dumper.Dumper']
    for q in prefer:
        c = world.repo.cls(q)
        if finfo.cls in c.mro:
            return c
    return finfo.cls


def resolution_family_ok(world, finfo, ctx):
    """every shipped concrete class that includes finfo.cls resolves each self.<method> call to the same function"""
    bad = []
    if finfo.cls is None or ctx is None:
        return bad
    names = set()
    for n in ast.walk(finfo.node):
        if isinstance(n, ast.Call) and isinstance(n.func, ast.Attribute) and isinstance(n.func.value, ast.Name) and n.func.value.id == 'self':
            names.add(n.func.attr)
    shipped = [c for c in world.repo.all_classes() if c.module.name in ('yaml.loader', 'yaml.dumper') and finfo.cls in c.mro]
    for nm in sorted(names):
        ref = world.repo.find_method(ctx, nm)
        for c in shipped:
            m = world.repo.find_method(c, nm)
            if m is not ref and not (m is not None and ref is not None and REG.contracts.get(m.qual) is not None and REG.contracts.get(ref.qual) is not None and m.cls in ref.cls.mro + [ref.cls] if False else False):
                if m is None or ref is None or m.qual != ref.qual:
                    # allowed when the override has the same contract text (override refines nothing observable)
                    bad.append((nm, c.qual, m.qual if m else None, ref.qual if ref else None))
    return bad


def entry_state(ex, finfo, contract):
    st = State()
    st.alloc = z3.Int('alloc0')
    st.assume(st.alloc >= 0)
    names = finfo.params
    for k, n in enumerate(names):
        ty = contract.params.get(n)
        if k == 0 and finfo.cls is not None and not finfo.is_staticmethod and n in ('self',):
            v = Val(fresh_v('self'), ex.ctx if ex.ctx is not None else finfo.cls)
            st.assume(is_r(v.t))
            st.assume(rv(v.t) >= 0)
            st.assume(rv(v.t) < st.alloc)
            ids = sorted({ex.w.class_id(c.qual) for c in ex.repo.subclasses(finfo.cls) if c.module.name in ('yaml.loader', 'yaml.dumper', 'yaml.cyaml')} | {ex.w.class_id(finfo.cls.qual)})
            st.assume(z3.Or(*[typ(rv(v.t)) == i for i in ids]))
        else:
            v = Val(fresh_v(n), ex.static_ty(ty) if ty else None)
            if ty:
                st.assume(ex.type_pred(ty, v.t, st))
            st.assume(z3.Implies(is_r(v.t), rv(v.t) < st.alloc))
        st.env[n] = v
    return st


def verify_function(world, qual, timeout_ms=10000):
    t0 = time.time()
    res = FunctionResult(qual)
    contract = REG.contracts[qual]
    finfo = world.repo.func(qual)
    ctx = pick_ctx(world, finfo, contract)
    ex = Exec(world, finfo, contract, ctx_cls=ctx, solver_timeout_ms=timeout_ms)
    calls.USED_BUILTINS.clear()
    try:
        st = entry_state(ex, finfo, contract)
        for r in contract.requires:
            st.assume(ex.spec(r, st))
        ex.entry = st.fork()
        ex.prove('cover/requires', st.pc, z3.BoolVal(False), kind='cover', detail='the precondition is satisfiable')
        bad = resolution_family_ok(world, finfo, ctx)
        ex.prove('resolution-family', [], z3.BoolVal(not bad), detail='self.<method> resolves identically in all shipped classes: %s' % (bad[:3],))
        run = Runner(ex)
        outs = run.block(finfo.node.body, st.fork())
        outs = run.drain() + outs
        res.paths = len(outs)
        check_exits(ex, contract, finfo, outs)
    except OutOfSubset as e:
        res.out_of_subset = str(e)
        ex.prove('in-subset', [], z3.BoolVal(False), detail=str(e))
    except Exception:
        res.error = traceback.format_exc()
        return res
    res.symex_seconds = time.time() - t0
    discharge(ex.obls, timeout_ms)
    for ob in ex.obls:
        res.obligations.append({'name': ob.name, 'kind': ob.kind, 'verdict': ob.verdict, 'backend': ob.backend,
                                'seconds': round(ob.seconds, 4), 'detail': ob.detail, 'model': ob.model, 'note': ob.note})
        res.solver_seconds += ob.seconds
    res.builtins = sorted(calls.USED_BUILTINS)
    return res


def allowed_exc(world, contract, exc):
    if exc == 'ANY':
        return contract.raises_any
    return any(world.exc_is_sub(exc, a) or (a in ('ANY',)) for a in contract.raises) or (contract.raises_any and False)


def check_exits(ex, contract, finfo, outs):
    n_normal = 0
    for o in outs:
        if o.kind in ('next', 'return'):
            n_normal += 1
            val = o.val if o.kind == 'return' and o.val is not None else Val(NONE, 'none')
            if contract.result:
                ex.prove('post/result-type', o.st.pc, ex.type_pred(contract.result, val.t, o.st), detail='result is %s' % contract.result)
            for j, cl in enumerate(contract.ensures):
                label = contract.labels.get(j, str(j))
                g = ex.spec(cl, o.st, old=ex.entry, result=val)
                ex.prove('post/%s' % label, o.st.pc, g, detail=cl if isinstance(cl, str) else 'callable')
            check_frame(ex, contract, o.st)
        elif o.kind == 'raise':
            if allowed_exc(ex.w, contract, o.exc):
                key = None
                for a in contract.ensures_raise:
                    if ex.w.exc_is_sub(o.exc, a):
                        key = a
                if key:
                    for j, cl in enumerate(contract.ensures_raise[key]):
                        ex.prove('post-raise/%s/%d' % (key.split('.')[-1], j), o.st.pc, ex.spec(cl, o.st, old=ex.entry), detail=str(cl))
                check_frame(ex, contract, o.st)
            else:
                # an exception class outside the contract: the path must be infeasible
                nm = 'raises-only/%s/%s' % (o.exc, (o.site or '').split('@')[0])
                ex.prove(nm, o.st.pc, z3.BoolVal(False), detail='%s at %s must be unreachable' % (o.exc, o.site))
        else:
            raise OutOfSubset('break/continue outside a loop')
    return n_normal


def check_frame(ex, contract, st):
    """nothing outside `modifies` changed: for every heap array that differs from the entry array, at a Skolem object"""
    entry = ex.entry
    view = State(); view.env = entry.env; view.heap = dict(entry.heap); view.pc = list(entry.pc); view.alloc = entry.alloc
    pts = calls.modifies_points(ex, contract.modifies, view, entry)
    for key, arr in st.heap.items():
        a0 = entry.heap.get(key)
        if a0 is None:
            a0 = ex.harr(entry, key)
        if arr.eq(a0):
            continue
        if any(k == key and r is None for k, r in pts):
            continue
        o = z3.Int(fresh_name('o'))
        allowed = [r for k, r in pts if k == key]
        hyp = [o < entry.alloc] + [o != r for r in allowed]
        # static objects (negative refs) are in scope of the frame too
        ex.prove('frame/%s' % key.replace('f:', ''), list(st.pc) + hyp, z3.Select(arr, o) == z3.Select(a0, o),
                 detail='only %s may be modified' % (contract.modifies,))


# ----------------------------------------------------------------------------- solving
def discharge(obls, timeout_ms=10000):
    for ob in obls:
        solve_one(ob, timeout_ms)


def model_to_py(m, limit=40):
    out = {}
    try:
        for d in m.decls()[:limit]:
            nm = d.name()
            if nm.startswith(('H0_', 'alloc', 'typ')) or '!' in nm and not nm.startswith(('self', 'res_')):
                continue
            s = str(m[d])
            if len(s) < 200:
                out[nm] = s
    except Exception:
        pass
    return out


def solve_one(ob, timeout_ms):
    if ob.verdict is not None:
        return
    t = time.time()
    s = z3.Solver()
    s.set('timeout', timeout_ms)
    s.add(*ob.pc)
    if ob.kind == 'cover':
        s.set('timeout', min(timeout_ms, 1500))
        r = s.check()
        ob.seconds = time.time() - t
        ob.backend = 'z3'
        # cover: must be satisfiable (unknown counts as reachable-not-disproved: fine for a vacuity guard)
        ob.verdict = 'proved' if r != z3.unsat else 'refuted'
        if r == z3.unsat:
            ob.note = 'vacuous: unreachable'
        return
    g = z3.simplify(ob.goal)
    if z3.is_true(g):
        ob.verdict, ob.backend, ob.seconds = 'proved', 'simplifier', time.time() - t
        return
    has_q = any_quantifier(ob.pc + [ob.goal])
    # portfolio: quantified VCs are unstable under z3's default mbqi; try E-matching only, then other seeds, then cvc5
    configs = [{}]
    if has_q:
        configs = [{'smt.mbqi': False}, {}, {'smt.mbqi': False, 'smt.random_seed': 7}, {'smt.random_seed': 3}]
    r = z3.unknown
    note = ''
    slice_ms = max(1000, timeout_ms // (len(configs) + (1 if has_q else 0)))
    for k, cfg in enumerate(configs):
        s = z3.Solver()
        s.set('timeout', slice_ms if has_q else timeout_ms)
        for kk, vv in cfg.items():
            s.set(kk, vv)
        s.add(*ob.pc)
        s.add(z3.Not(ob.goal))
        r = s.check()
        if r != z3.unknown:
            break
        note = s.reason_unknown()
    ob.backend = 'z3'
    if r == z3.unsat:
        ob.verdict = 'proved'
    elif r == z3.sat:
        ob.verdict = 'refuted'
        ob.model = model_to_py(s.model())
    else:
        ob.verdict = 'undecided'
        ob.note = note
        r2 = cvc5_check(s, timeout_s=max(10, timeout_ms // 1000))
        if r2 == 'unsat':
            ob.verdict, ob.backend = 'proved', 'cvc5'
        elif r2 == 'sat':
            ob.verdict, ob.backend = 'refuted', 'cvc5'
    ob.seconds = time.time() - t


def any_quantifier(fs):
    seen = set()
    stack = list(fs)
    n = 0
    while stack and n < 20000:
        f = stack.pop()
        n += 1
        if z3.is_quantifier(f):
            return True
        i = f.get_id()
        if i in seen:
            continue
        seen.add(i)
        if z3.is_app(f):
            stack.extend(f.children())
    return False


def cvc5_check(solver, timeout_s=20):
    try:
        smt = solver.to_smt2()
    except Exception:
        return None
    smt = '(set-logic ALL)\n' + smt
    with tempfile.NamedTemporaryFile('w', suffix='.smt2', delete=False) as f:
        f.write(smt)
        path = f.name
    try:
        p = subprocess.run(['/usr/bin/cvc5', '--strings-exp', '--tlimit=%d' % (timeout_s * 1000), path],
                           capture_output=True, text=True, timeout=timeout_s + 5)
        out = p.stdout.strip().splitlines()
        return out[0] if out and out[0] in ('sat', 'unsat') else None
    except Exception:
        return None
    finally:
        os.unlink(path)
