"""Check orchestration: run every unit of a property in a process pool, decide, write evidence and replays."""
import os, sys, json, time, hashlib, traceback, subprocess, multiprocessing as mp
from . import VERIF, REPO

VENV_PY = '/venv/bin/python'


def _verify_worker(args):
    qual, timeout_ms = args
    try:
        if os.environ.get('PYVC_FAULT'):
            import faulthandler
            faulthandler.dump_traceback_later(int(os.environ['PYVC_FAULT']), repeat=True, file=open('/tmp/pyvc-fault-%d.txt' % os.getpid(), 'w'))
        from .spec import load_all
        from .symex import World
        from .verify import verify_function
        load_all()
        w = World()
        r = verify_function(w, qual, timeout_ms)
        return {'unit': 'fn:' + qual, 'kind': 'contract', 'obligations': r.obligations, 'error': r.error,
                'out_of_subset': r.out_of_subset, 'builtins': r.builtins, 'solver_seconds': r.solver_seconds,
                'symex_seconds': r.symex_seconds, 'paths': r.paths}
    except Exception:
        return {'unit': 'fn:' + qual, 'kind': 'contract', 'obligations': [], 'error': traceback.format_exc()}


def _front_worker(args):
    name, pid, tier, seed = args
    try:
        from .spec import load_all
        load_all()
        import importlib
        mod, _, fn = name.rpartition(':')
        m = importlib.import_module(mod)
        t = time.time()
        out = getattr(m, fn)(pid=pid, tier=tier, seed=seed)
        out.setdefault('unit', 'front:' + name)
        out.setdefault('kind', 'front')
        out.setdefault('error', None)
        out['wall'] = time.time() - t
        return out
    except Exception:
        return {'unit': 'front:' + name, 'kind': 'front', 'obligations': [], 'error': traceback.format_exc()}


def _bounded_worker(args):
    script, pid, tier, seed = args
    t = time.time()
    env = dict(os.environ)
    env['PYTHONPATH'] = os.path.join(REPO, 'lib')
    env['VERIF_SEED'] = str(seed)
    env['VERIF_TIER'] = tier
    env['PYTHONHASHSEED'] = '0'
    try:
        p = subprocess.run([VENV_PY, os.path.join(VERIF, 'bounded', script), '--property', pid, '--tier', tier, '--seed', str(seed)],
                           capture_output=True, text=True, env=env, timeout=3000, cwd=VERIF)
        last = p.stdout.strip().splitlines()[-1] if p.stdout.strip() else '{}'
        out = json.loads(last)
        out.update({'unit': 'bounded:' + script, 'kind': 'bounded', 'wall': time.time() - t})
        if p.returncode not in (0, 1):
            out['error'] = 'exit %d: %s' % (p.returncode, p.stderr[-2000:])
        return out
    except Exception:
        return {'unit': 'bounded:' + script, 'kind': 'bounded', 'error': traceback.format_exc(), 'failures': [], 'cases': 0}


def load_known():
    p = os.path.join(VERIF, 'known_findings.json')
    if os.path.exists(p):
        return json.load(open(p))
    return {'findings': []}


def match_known(known, pid, name, witness=''):
    for f in known.get('findings', []):
        if f.get('status') != 'known':
            continue
        if pid not in f.get('properties', []):
            continue
        import fnmatch
        if fnmatch.fnmatch(name, f['obligation']):
            wc = f.get('witness_class')
            if wc and wc not in (witness or ''):
                continue
            return f
    return None


def _unit_main(fn, arg, conn, hb):
    from . import z3v
    z3v.HEARTBEAT[0] = hb
    hb.value = time.time()
    try:
        conn.send(fn(arg))
    except Exception:
        conn.send({'unit': str(arg), 'kind': 'contract', 'obligations': [], 'error': traceback.format_exc()})
    conn.close()


def schedule(units, jobs, stall_s):
    """one process per unit, at most `jobs` at a time.  A worker that has not beaten its heartbeat (one beat per solver call / obligation)
    for `stall_s` seconds is stuck, not busy: it is killed and the unit is run once more; stuck twice = an error of the checker
    (exit 3, undecided), never a verdict."""
    ctx = mp.get_context('fork')
    results = [None] * len(units)
    pending = list(range(len(units)))
    running = {}        # idx -> (proc, conn, hb, attempt)
    attempts = [0] * len(units)
    while pending or running:
        while pending and len(running) < jobs:
            i = pending.pop(0)
            fn, arg = units[i]
            parent, child = ctx.Pipe(duplex=False)
            hb = ctx.Value('d', time.time())
            p = ctx.Process(target=_unit_main, args=(fn, arg, child, hb))
            p.daemon = False
            p.start()
            child.close()
            attempts[i] += 1
            running[i] = (p, parent, hb)
        time.sleep(0.05)
        for i in list(running):
            p, conn, hb = running[i]
            done = False
            if conn.poll():
                try:
                    results[i] = conn.recv()
                    done = True
                except EOFError:
                    results[i] = {'unit': str(units[i][1]), 'kind': 'contract', 'obligations': [], 'error': 'worker died without a result (exit code %s)' % p.exitcode}
                    done = True
            elif not p.is_alive():
                results[i] = {'unit': str(units[i][1]), 'kind': 'contract', 'obligations': [], 'error': 'worker died without a result (exit code %s)' % p.exitcode}
                done = True
            elif units[i][0] is _verify_worker and time.time() - hb.value > stall_s:
                kill_tree(p.pid)
                p.join(5)
                conn.close()
                del running[i]
                if attempts[i] < 2:
                    sys.stderr.write('pyvc: worker for %s made no progress for %ds: killed, running it once more\n' % (units[i][1][0], stall_s))
                    pending.append(i)
                else:
                    results[i] = {'unit': 'fn:' + units[i][1][0], 'kind': 'contract', 'obligations': [],
                                  'error': 'worker stuck twice (no solver call finished for %ds)' % stall_s}
                continue
            if done:
                p.join(10)
                if p.is_alive():
                    kill_tree(p.pid)
                conn.close()
                del running[i]
    return results


def kill_tree(pid):
    try:
        out = subprocess.run(['pgrep', '-P', str(pid)], capture_output=True, text=True).stdout.split()
    except Exception:
        out = []
    for c in out:
        kill_tree(int(c))
    try:
        os.kill(pid, 9)
    except OSError:
        pass


def run_property(pid, tier='quick', seed=0, jobs=None):
    from .plan import PLAN
    from .spec import load_all, REG
    from .source import repo
    t0 = time.time()
    load_all()
    plan = PLAN[pid]
    timeout_ms = 10000 if tier == 'quick' else 60000
    units = []
    quals = sorted(q for q, c in REG.contracts.items() if pid in c.props and not c.trusted and (tier == 'thorough' or c.tier == 'quick'))
    for q in quals:
        units.append((_verify_worker, (q, timeout_ms)))
    for f in plan.get('fronts', []):
        if isinstance(f, tuple):
            if f[1] == 'thorough' and tier != 'thorough':
                continue
            f = f[0]
        units.append((_front_worker, (f, pid, tier, seed)))
    for b in plan.get('bounded', []):
        units.append((_bounded_worker, (b, pid, tier, seed)))
    jobs = jobs or min(16, max(1, len(units)))
    results = schedule(units, jobs, stall_s=int(os.environ.get('PYVC_STALL') or (900 if tier == 'quick' else 3600)))
    return decide(pid, tier, seed, plan, results, quals, time.time() - t0)


def decide(pid, tier, seed, plan, results, quals, wall):
    known = load_known()
    rp = repo_sha()
    obligations = []
    bounded = []
    errors = []
    builtins = set()
    solver_seconds = 0.0
    for r in results:
        if r.get('error'):
            errors.append((r['unit'], r['error']))
        if r['kind'] == 'bounded':
            bounded.append(r)
            continue
        for o in r.get('obligations', []):
            o = dict(o)
            o['unit'] = r['unit']
            obligations.append(o)
        builtins.update(r.get('builtins', []))
        solver_seconds += r.get('solver_seconds', 0.0)
    violations = []
    known_hits = []
    unfit = []          # functions that left the verified subset / whose contract no longer fits the code: undecided, not a violation
    proof_obls = [o for o in obligations]
    discharged = 0
    by_backend = {}
    for o in proof_obls:
        if o['verdict'] == 'proved':
            discharged += 1
            by_backend[o.get('backend') or '?'] = by_backend.get(o.get('backend') or '?', 0) + 1
            continue
        k = match_known(known, pid, o['name'], json.dumps(o.get('model') or o.get('witness') or ''))
        if k is not None:
            known_hits.append((o, k))
            continue
        if o['name'].endswith('/in-subset'):
            unfit.append(o)
            continue
        violations.append(o)
    bfail = []
    for b in bounded:
        for f in b.get('failures', []):
            k = match_known(known, pid, 'bounded/' + b['unit'].split(':', 1)[1] + '/' + f.get('check', ''), json.dumps(f))
            if k is not None:
                known_hits.append(({'name': 'bounded/' + f.get('check', ''), 'witness': f}, k))
            else:
                bfail.append((b, f))
    os.makedirs(os.path.join(VERIF, 'replays', pid), exist_ok=True)
    lines = []
    for o, k in known_hits:
        lines.append('KNOWN-FINDING: property=%s %s [%s] %s' % (pid, k['id'], o['name'], k['what']))
    seen = set()
    lines = [l for l in lines if not (l in seen or seen.add(l))]
    vio_lines = []
    for o in violations:
        rpath = write_replay(pid, o, bounded)
        tail = (' input=%s observed=%s' % (json.dumps({'args': o['concrete']['args'], 'fields': o['concrete']['fields']})[:160], json.dumps(o.get('observed'))[:120])) if o.get('replayed') else ' no-failing-input-found'
        vio_lines.append('VIOLATION property=%s replay=%s obligation=%s verdict=%s%s' % (pid, rpath, o['name'], o['verdict'], tail))
    for b, f in bfail:
        rpath = write_replay(pid, {'name': 'bounded/%s/%s' % (b['unit'].split(':', 1)[1], f.get('check', '')), 'verdict': 'refuted',
                                   'detail': f.get('message', ''), 'witness': f, 'replayed': True, 'unit': b['unit']}, bounded)
        vio_lines.append('VIOLATION property=%s replay=%s bounded-check=%s input=%s' % (pid, rpath, f.get('check', ''), json.dumps(f.get('input'))[:200]))
    n_obl = len(proof_obls)
    samples = []
    for o in proof_obls[:3] + proof_obls[len(proof_obls) // 2: len(proof_obls) // 2 + 2] + proof_obls[-2:]:
        samples.append({'obligation': o['name'], 'verdict': o['verdict'], 'backend': o.get('backend'), 'seconds': o.get('seconds'), 'what': (o.get('detail') or '')[:200]})
    for o in violations[:5]:
        samples.append({'obligation': o['name'], 'verdict': o['verdict'], 'model': o.get('model'), 'what': (o.get('detail') or '')[:300]})
    ev = {
        'property_id': pid, 'tier': tier, 'seed': int(seed), 'level': 'proof', 'wall_s': round(wall, 2),
        'violations': len(vio_lines),
        'coverage': {
            'obligations': n_obl, 'discharged': discharged,
            'checker_cmd': './check %s --tier %s' % (pid, tier),
            'trusted_base': sorted(set(plan.get('trusted', []) + ['z3-solver 5.1.0 (python3-vt)', '/usr/bin/cvc5 1.0.3 for z3 unknowns',
                                   'pyvc encoding of Python semantics (DESIGN 3.3)'] + ['builtin contract: ' + b for b in sorted(builtins)])),
            'functions_under_contract': quals,
            'units': [r['unit'] for r in results],
            'by_backend': by_backend, 'solver_seconds': round(solver_seconds, 2),
            'source_sha256': rp,
            'bounded': [{'unit': b['unit'], 'cases': b.get('cases', 0), 'bound': b.get('bound', ''), 'failures': len(b.get('failures', [])),
                         'label': 'bounded stand-in, never counted as proved'} for b in bounded],
            'known_findings_matched': sorted({k['id'] for _, k in known_hits}),
            'undischarged': [{'obligation': o['name'], 'verdict': o['verdict']} for o in violations][:50],
            'outside_subset': [{'unit': o['name'], 'why': (o.get('detail') or '')[:200]} for o in unfit],
            'engine_errors': [u for u, _ in errors],
            'samples': samples,
            'explanation': plan.get('explanation', ''),
        },
        'assumptions': plan.get('assumptions', []) + COMMON_ASSUMPTIONS,
    }
    evdir = os.environ.get('PYVC_EVIDENCE_DIR') or os.path.join(VERIF, 'evidence')     # dev runs on scratch copies write elsewhere
    os.makedirs(evdir, exist_ok=True)
    with open(os.path.join(evdir, pid + '.json'), 'w') as f:
        json.dump(ev, f, indent=1, sort_keys=True)
    for l in lines:
        print(l)
    for l in vio_lines:
        print(l)
    if errors:
        for u, e in errors:
            print('ENGINE-ERROR unit=%s\n%s' % (u, e), file=sys.stderr)
    print('%s %s: %d obligations, %d discharged, %d known findings, %d violations, %d bounded units, %.1fs' %
          (pid, tier, n_obl, discharged, len(known_hits), len(vio_lines), len(bounded), wall))
    for o in unfit:
        print('UNDECIDED property=%s unit=%s: the function uses a construct outside the verified subset or its contract no longer fits the code (%s); '
              'its obligations were not generated -- neither a violation nor a pass' % (pid, o['name'].rsplit('/', 1)[0], (o.get('detail') or '')[:160]))
    if vio_lines:
        return 1
    if errors or unfit:
        return 3
    if n_obl == 0:
        print('no obligations generated: refusing to report success', file=sys.stderr)
        return 3
    return 0


COMMON_ASSUMPTIONS = [
    'Python ints are mathematical integers; floats are opaque values (only their textual syntax is modelled)',
    'characters above U+2FFFD are collapsed order-preservingly into z3\'s character range (U+10FFFF kept distinct)',
    'no asynchronous exceptions (KeyboardInterrupt, MemoryError, RecursionError); recursion is partial-correctness only',
    'library classes have no __getattr__/__setattr__/__eq__ overrides (checked syntactically); user subclasses of tokens/events/nodes are out of scope',
    'dict iteration order is insertion order (CPython >= 3.7)',
    'the LibYAML/Cython half (yaml/_yaml.pyx, libyaml) is not under any discharged contract',
]


def repo_sha():
    out = {}
    lib = os.path.join(REPO, 'lib', 'yaml')
    for n in sorted(os.listdir(lib)):
        if n.endswith('.py'):
            out['lib/yaml/' + n] = hashlib.sha256(open(os.path.join(lib, n), 'rb').read()).hexdigest()
    return out


def write_replay(pid, o, bounded):
    d = os.path.join(os.environ.get('PYVC_REPLAY_DIR') or os.path.join(VERIF, 'replays'), pid)
    os.makedirs(d, exist_ok=True)
    safe = ''.join(ch if ch.isalnum() or ch in '._-' else '_' for ch in o['name'])[-150:]
    path = os.path.join(d, safe + '.json')
    rec = {'property': pid, 'obligation': o['name'], 'verdict': o['verdict'], 'detail': o.get('detail'),
           'solver_model': o.get('model'), 'solver_note': o.get('note'), 'backend': o.get('backend'),
           'witness': o.get('witness'), 'replayed_on_real_code': bool(o.get('replayed')), 'unit': o.get('unit'),
           'concrete': o.get('concrete'), 'observed_on_real_code': o.get('observed'),
           'how_to_replay': o.get('replay_cmd', './check %s --replay %s' % (pid, os.path.relpath(path, VERIF)))}
    with open(path, 'w') as f:
        json.dump(rec, f, indent=1, default=str)
    return os.path.relpath(path, VERIF)
