"""Which units decide which property.  Contracts attach themselves through their `props` list;
fronts are specialised generators built on the same core; bounded are labelled stand-ins."""

PLAN = {
    'C01': {
        'fronts': ['pyvc.fronts.tables:run', 'pyvc.fronts.effects:run_c01'],
        'bounded': [],
        'assumptions': ['A-cparser: the Cython CParser base of the C loaders is trusted to call only get_single_data-style entry points (text scan of the .pyx for name clashes only)'],
        'explanation': 'closed constructor tables (module-init run under the proved COW contract), dispatch, effect contracts of every reachable constructor',
    },
    'C04': {
        'fronts': ['pyvc.fronts.tables:run', 'pyvc.fronts.effects:run_c04'],
        'bounded': [],
        'assumptions': ['A-getattr: getattr on an already-imported module returns an existing attribute (module-level __getattr__ hooks are out of scope)'],
        'explanation': 'full-loader tables contain only value constructors and python/name; __import__ is unreachable with unsafe=False',
    },
    'C10': {
        'fronts': ['pyvc.fronts.tables:run', 'pyvc.fronts.effects:run_c10'],
        'bounded': ['c10_histories.py'],
        'assumptions': ['linear(name): each class inherits a given registry through a single chain (no registry diamonds in user lattices)',
                        'add_implicit_resolver / add_path_resolver are covered by the bounded stand-in and the module-init run only (their loop contracts are not discharged yet)'],
        'explanation': 'copy-on-write contract of the add_* class methods over an arbitrary class lattice; module-init tables; API helper targets',
    },
    'C11': {
        'fronts': ['pyvc.fronts.effects:run_c11'],
        'bounded': [],
        'assumptions': ['id()-dependent behaviour is not modelled'],
        'explanation': 'frame: no library-global state is written; per-document reset postconditions',
    },
    'C15': {
        'fronts': [],
        'bounded': [],
        'assumptions': ['indent/width are None or int (not bool), line_break is None or str -- the types dump() documents'],
        'explanation': 'contracts on the emitter functions that implement the formatting options',
    },
    'C19': {
        'fronts': ['pyvc.fronts.effects:run_c19', 'pyvc.fronts.effects:run_c11'],
        'bounded': [],
        'assumptions': ['A-lt: sorted() may run a user __lt__; a TypeError from it is swallowed by design (represent_mapping)'],
        'explanation': 'exception transparency: no handler can catch a stream or callback exception; output is append-only; frame of C11 for "usable afterwards"',
    },
    'C13': {
        'fronts': [],
        'bounded': [],
        'assumptions': ['the event source delivers a word of the event grammar (wf_events); check_event/peek_event/get_event are assumed against the ghost event sequence',
                        'constructor protocol (PROTO) is assumed of registered constructors and of generator resumption',
                        'descend_resolver / ascend_resolver / resolve are used through their frames only'],
        'explanation': 'composer: alias = identity of the anchored node, define-before-use, duplicate rejection, node registered before its children, anchors reset per document; constructor: node->object cache, recursion guard, deep flag restored, caches reset per document',
    },
}
