"""Which units decide which property.  Contracts attach themselves through their `props` list;
fronts are specialised generators built on the same core; bounded are labelled stand-ins."""

PLAN = {
    'C15': {
        'fronts': [],
        'bounded': [],
        'assumptions': ['indent/width are None or int (not bool), line_break is None or str -- the types dump() documents'],
        'explanation': 'contracts on the emitter functions that implement the formatting options',
    },
}
