"""Which units decide which property.  Contracts attach themselves through their `props` list;
fronts are specialised generators built on the same core; bounded are labelled stand-ins."""

PLAN = {
    'C01': {
        'fronts': ['pyvc.fronts.tables:run', 'pyvc.fronts.effects:run_c01'],
        'bounded': [],
        'assumptions': ['A-cparser: the Cython CParser base of the C loaders is trusted to call only get_single_data-style entry points (text scan of the .pyx for name clashes only)'],
        'explanation': 'closed constructor tables (module-init run under the proved COW contract), dispatch, effect contracts of every reachable constructor',
    },
    'C04': {
        'fronts': ['pyvc.fronts.tables:run', 'pyvc.fronts.effects:run_c04'],
        'bounded': [],
        'assumptions': ['A-getattr: getattr on an already-imported module returns an existing attribute (module-level __getattr__ hooks are out of scope)'],
        'explanation': 'full-loader tables contain only value constructors and python/name; __import__ is unreachable with unsafe=False',
    },
    'C10': {
        'fronts': ['pyvc.fronts.tables:run', 'pyvc.fronts.effects:run_c10'],
        'bounded': ['c10_histories.py'],
        'assumptions': ['linear(name): each class inherits a given registry through a single chain (no registry diamonds in user lattices)',
                        'add_path_resolver is covered by the bounded stand-in and the module-init run only (its path-normalisation loop is not under contract)',
                        'add_implicit_resolver: separation of the per-character lists between classes (sep) and "values are lists" are preconditions: they hold for the shipped tables by the module-init run and are preserved by the function, the induction over arbitrary registration histories is the bounded stand-in'],
        'explanation': 'copy-on-write contract of the add_* class methods over an arbitrary class lattice, for add_implicit_resolver one level deeper (no list that existed before is written unless it belongs to the own table of cls; tables of different classes share no list); module-init tables; API helper targets',
    },
    'C11': {
        'fronts': ['pyvc.fronts.effects:run_c11'],
        'bounded': [],
        'assumptions': ['id()-dependent behaviour is not modelled'],
        'explanation': 'frame: no library-global state is written; per-document reset postconditions',
    },
    'C15': {
        'fronts': [],
        'bounded': [],
        'assumptions': ['indent/width are None or int (not bool), line_break is None or str -- the types dump() documents',
                        'line breaks: proved is that the writers under contract (plain, single-quoted, literal, folded) never pass a line feed of the text to write_line_break (it is written as the effective break); that NEL/LS/PS are the only other breaks passed, and the escapes of write_double_quoted, are NOT discharged (write_double_quoted is used through its frame)',
                        'the stream is modelled by a ghost log of the chunks handed to write(); a codec that cannot encode a chunk raises UnicodeEncodeError, which passes through'],
        'explanation': 'contracts on the emitter functions that implement the formatting options',
    },
    'C19': {
        'fronts': ['pyvc.fronts.effects:run_c19', 'pyvc.fronts.effects:run_c11'],
        'bounded': [],
        'assumptions': ['A-lt: sorted() may run a user __lt__; a TypeError from it is swallowed by design (represent_mapping)', 'A-hash: hash(key) in construct_mapping may run a user __hash__; a TypeError from it becomes the ConstructorError for an unhashable key (by design); neither is a stream or constructor/representer callback'],
        'explanation': 'exception transparency: no handler can catch a stream or callback exception; output is append-only; frame of C11 for "usable afterwards"',
    },
    'C13': {
        'fronts': [],
        'bounded': [],
        'assumptions': ['the event source delivers a word of the event grammar (wf_events); check_event/peek_event/get_event are assumed against the ghost event sequence',
                        'constructor protocol (PROTO) is assumed of registered constructors and of generator resumption; it is PROVED of the five two-phase constructors of the safe loader (seq, map, set, omap, pairs: new empty container handed out before any child is constructed, nothing touched before the yield, protocol kept in the second phase); while a generator is suspended only what the protocol allows is assumed to change',
                        'SafeConstructor.construct_mapping is used through an assumed contract (merge flattening is the bounded stand-in of C14)',
                        'descend_resolver / ascend_resolver / resolve are used through their frames only'],
        'explanation': 'composer: alias = identity of the anchored node, define-before-use, duplicate rejection, node registered before its children, anchors reset per document; constructor: node->object cache, recursion guard, deep flag restored, caches reset per document; two-phase constructors yield the empty container first (recursive structures)',
    },
    'C09': {
        'fronts': [], 'bounded': [],
        'assumptions': ['the token source delivers an arbitrary scanner-shaped token sequence (wf_tokens): STREAM-START first, STREAM-END last and only last, Mark objects with ordered indices in [0, N]; check_token/peek_token/get_token are assumed against that ghost sequence',
                        'Reader.update is used through its abstract window contract (buffer is a window of the ghost text S, position unchanged)',
                        'lemma msum >= 0 (induction on the parser stack, weights 0/1) is stated, not machine-checked'],
        'explanation': 'reader: index/line/column equal the counted spec functions after forward(); get_mark copies them and lies inside the input; parser: for every state, every next-token class and every well-typed stack, the event marks satisfy 0 <= start <= end <= N and first-token.start <= start <= next-token.start, stack pops are safe, the asserts at STREAM-END hold',
    },
    'C03': {
        'fronts': [], 'bounded': [],
        'assumptions': ['token source / event source abstractions as in C09 / C13', 'under contract in the scanner: the look-ahead predicates, line breaks, block-scalar header / indentation / breaks, ignored lines, the whole directive scanner (scan_directive and its seven helpers), node tags (scan_tag, scan_tag_handle, scan_tag_uri, scan_uri_escapes), the white-space / folding helpers of quoted scalars (scan_flow_scalar_spaces / _breaks), scan_to_next_token, add_indent and the simple-key registration (save / remove / stale / next_possible_simple_key, need_more_tokens); NOT under contract: the fetch_* dispatchers, unwind_indent, scan_anchor, scan_block_scalar, scan_flow_scalar / scan_flow_scalar_non_spaces (probe note F1: chr() of an out-of-range \\U escape), scan_plain / scan_plain_spaces, scan_to_next_token: "scanning raises only ScannerError" is claimed for the functions under contract only'],
        'explanation': 'parser and composer functions raise only ParserError / ComposerError (YAMLError) or what the layer below raises, for arbitrary token / event sequences; no IndexError, AttributeError, TypeError, UnboundLocalError, AssertionError is reachable; reader primitives are index-safe',
    },
    'C12': {
        'fronts': [], 'bounded': [],
        'assumptions': ['the stream is modelled by a ghost log of the chunks handed to write()', 'the scalar writers are under contract for indices, position bookkeeping, frame, exception class and the line-feed rule only (write_double_quoted: frame only): "no content line starts with --- / ..." is NOT claimed'],
        'explanation': 'emitter: only the first document may omit the --- marker and only when nothing asks for it, explicit_end writes ..., an open-ended document is closed with ... before the %YAML/%TAG lines of the next document and before the stream end, tag prefixes are rebuilt per document, write_indent puts the marker at column 0; parser: document loop (DOCUMENT-END skipping, directives consumed, implicit documents get the default handles)',
    },
    'C05': {
        'fronts': [], 'bounded': [],
        'assumptions': ['prepare_anchor / prepare_tag / analyze_scalar are used through assumed shape contracts', 'the text-level inverse emit -> parse is NOT claimed (scalar writers and scanners are outside)'],
        'explanation': 'emitter: prepared anchor/tag are consumed on every path (nothing leaks to the next node), the tag is elided only when the event says it is implicit for the style actually used, style choice respects the analysis, the first/last states accept only STREAM-START / nothing and reject everything else with EmitterError',
    },
    'C02': {
        'fronts': [], 'bounded': [],
        'assumptions': ['only the block-scalar header, the style choice and the tag elision rule are under contract; the end-to-end inverse is NOT claimed'],
        'explanation': 'determine_block_hints: indentation indicator exactly when the text starts with a space or break, chomping indicator by the trailing breaks; choose_scalar_style / process_tag: plain only when implicit and allowed by the analysis',
    },
    'C07': {
        'fronts': [], 'bounded': [],
        'assumptions': ['Reader.update (the refill loop, decoding, chunking) is used through its abstract contract here; chunk-size independence of update itself is NOT discharged yet'],
        'explanation': 'everything downstream of the Reader sees only peek/prefix/forward/get_mark whose contracts are stated over the ghost text and position and never mention buffer, pointer or chunk sizes; a BOM does not advance the column; CR LF is one break (one character of look-ahead is always buffered)',
    },
    'C08': {
        'fronts': ['pyvc.fronts.regexes:run'], 'bounded': ['c08_values.py'],
        'assumptions': ['the languages of str(int), repr(float) after the .0e fix-up and date/datetime.isoformat are ASSUMED (written as regular expressions in pyvc/fronts/regexes.py)',
                        'the VALUE computed by the int/float/timestamp converters (int(), float(), datetime arithmetic) is outside the verifier: it is compared with an independent reading of the YAML 1.1 type definitions on a finite grid of spellings only (bounded stand-in c08_values.py, never counted as proved); utc offsets with seconds are outside the dump-side language (probe note F18)',
                        "re._parser.parse is trusted to give Python's reading of a pattern; z3's regex solver decides the language queries"],
        'explanation': 'every implicit-resolver pattern, translated from its real source: first-character index complete, language equal to the YAML 1.1 language (documented deviations spelt out), pairwise disjoint; what the representer writes for int/float/bool/null/date/datetime lies in the language of its own type; plain is chosen only when the tag is implicit (choose_scalar_style / process_tag contracts)',
    },
    'C16': {
        'fronts': [], 'bounded': [],
        'assumptions': ['represent_mapping / represent_data / anchor_node / serialize_node / Emitter.emit are used through ASSUMED frame contracts',
                        'sorted() of a dict\'s items is not modelled: "same contents => same order" rests on the assumed contract of sorted, it is not discharged',
                        'the fixed point dump(load(dump(x))) == dump(x) is NOT claimed'],
        'explanation': 'anchor names are a function of a per-document counter that restarts at 0 (generate_anchor, serialize, represent reset postconditions); a set is represented through a dict so that sort_keys applies to it (precondition of represent_mapping at the call site); tag and text of none/bool/int/str are functions of the value',
    },
    'C14': {
        'fronts': [], 'bounded': ['c14_merge.py'],
        'assumptions': ['registered constructors follow the constructor protocol (assumed)', 'merge flattening (flatten_mapping, SafeConstructor.construct_mapping) is covered by a BOUNDED stand-in only: the node-graph invariant it needs is hereditary through recursion and its nested quantifiers did not discharge within budget'],
        'explanation': 'BaseConstructor.construct_mapping / construct_pairs / construct_sequence under discharged contracts (only mapping/sequence nodes accepted, unhashable keys -> ConstructorError, one entry per item, caches only grow); merge precedence rules searched exhaustively on small node graphs incl. shared merge sources and re-construction of every merge source after its user (bounded, labelled)',
    },
    'C18': {
        'fronts': ['pyvc.fronts.effects:run_c18'], 'bounded': [],
        'assumptions': ["the stream returns at most n units from read(n) (assumed contract of the caller's stream)", 'the codec consumes at most what it is given (assumed)',
                        'the token builders (fetch_*) that sit between need_more_tokens and the reader are not under contract: the end-to-end bound "two refill blocks beyond the document" is NOT derived, only its three mechanisms are proved'],
        'explanation': 'Reader.update reads nothing while enough characters are buffered and update_raw performs exactly one read of at most 4096 units; simple-key candidates expire after one line / 1024 characters and more tokens are fetched only while the queue is empty or a candidate is pending; the API generators yield one item per iteration inside try/finally dispose',
    },
    'C20': {
        'fronts': [], 'bounded': [],
        'assumptions': ['cost of built-ins (list.pop(0), str +=, join) and of the parser/composer/constructor/representer recursion is outside', 'the emitter event queue bound (need_events) is not under contract',
                        'the empirical "calls at most double" measurement is not run as a decider'],
        'explanation': 'mechanisms that keep the work linear: pending simple keys are bounded (one line / 1024 characters), the reader drops the consumed prefix on every refill and reads nothing while enough is buffered; every scanning loop under contract has a variant (len(S) - index), i.e. consumes a character per iteration',
    },
}
