"""Statement execution: paths, merging at joins, loops cut by invariants, exceptions as abrupt exits."""
import ast
import z3
from .z3v import *
from .source import ClassInfo, FuncInfo
from .spec import REG
from .symex import Val, OutOfSubset, Outcome, State, fresh_v, fresh_name
from . import calls


SPEC_PURE = set()


class Runner:
    def __init__(self, ex):
        self.ex = ex

    # ------------------------------------------------------------------ blocks
    MAX_PATHS = 24

    def block(self, stmts, st):
        """returns a list of Outcomes; several may be of kind 'next' (paths are split at `if`, joined before loops
        and when more than MAX_PATHS are alive)"""
        outs = []
        curs = [st]
        for s in stmts:
            if not curs:
                break
            split = getattr(self.ex.c, 'split_loops', False) and len(curs) <= 4 and isinstance(s, (ast.While, ast.For))
            if len(curs) > 1 and not split and (isinstance(s, (ast.While, ast.For, ast.Try)) or (len(curs) > getattr(self.ex.c, 'max_paths', self.MAX_PATHS) and not isinstance(s, (ast.Return, ast.Raise))) or self.has_comprehension(s)):
                curs = [self.join_states(None, curs)]
            nxt = []
            for cur in curs:
                res = self.stmt(s, cur)
                nxt.extend(o.st for o in res if o.kind == 'next')
                outs.extend(o for o in res if o.kind != 'next')
            curs = nxt
            if getattr(self.ex.c, 'cuts', None) and not self.ex.inline_depth:
                self.do_cuts(s, curs)
        for cur in curs:
            outs.append(Outcome('next', cur))
        return outs

    def do_cuts(self, s, states):
        ex = self.ex
        text = None
        for k, (anchor, clauses) in enumerate(ex.c.cuts):
            if text is None:
                text = ast.unparse(s)
            if anchor.startswith('re:'):
                # a regular expression on the first line of the statement: an anchor that survives an edit of the rest of the line
                import re as _re
                if not _re.search(anchor[3:], text.split('\n', 1)[0]):
                    continue
            elif not text.startswith(anchor):
                continue
            ex.cuts_seen = getattr(ex, 'cuts_seen', set()) | {k}
            for st in states:
                for j, cl in enumerate(clauses):
                    g = ex.spec(cl, st, old=getattr(ex, 'resume_state', None) or ex.entry)
                    ex.prove('cut/%d/%d' % (k, j), st.pc, g, detail='after line %d: %s' % (s.lineno, cl if isinstance(cl, str) else 'callable'))
                    st.assume(g)

    def has_comprehension(self, s):
        return any(isinstance(n, (ast.ListComp, ast.For, ast.While)) for n in ast.walk(s))

    def one_next(self, outs):
        """join the 'next' outcomes of a block into at most one"""
        nxt = [o for o in outs if o.kind == 'next']
        rest = [o for o in outs if o.kind != 'next']
        if len(nxt) > 1:
            rest.append(Outcome('next', self.join_states(None, [o.st for o in nxt])))
        else:
            rest.extend(nxt)
        return rest

    def drain(self, st=None):
        """exceptional forks produced while evaluating expressions of the current statement"""
        p = self.ex.pending
        self.ex.pending = []
        return p

    def stmt(self, s, st):
        m = getattr(self, 's_' + type(s).__name__, None)
        if m is None:
            raise OutOfSubset('statement %s at line %d' % (type(s).__name__, s.lineno))
        outs = m(s, st)
        return self.drain() + outs

    # ------------------------------------------------------------------ simple statements
    def s_Pass(self, s, st):
        return [Outcome('next', st)]

    def s_Expr(self, s, st):
        if isinstance(s.value, ast.Constant):
            return [Outcome('next', st)]        # docstring
        if isinstance(s.value, (ast.Yield, ast.YieldFrom)):
            return self.do_yield(s.value, st)
        self.ex.ev(s.value, st)
        return [Outcome('next', st)]

    def do_yield(self, y, st):
        """`yield e` as a statement of a two-phase generator: the at_yield clauses and an empty frame are proved here (nothing that
        existed at entry was touched before the value is handed out), then the suspension is a havoc of `resume_modifies` under
        `resume_ensures`.  More than one yield on a path is outside the subset."""
        ex = self.ex
        c = ex.c
        if isinstance(y, ast.YieldFrom) or y.value is None or not c.at_yield:
            raise OutOfSubset('yield (line %d) without an at_yield contract' % y.lineno)
        if '$yielded' in st.env:
            raise OutOfSubset('second yield on one path (line %d)' % y.lineno)
        v = ex.ev(y.value, st)
        for j, cl in enumerate(c.at_yield):
            label = c.yield_labels.get(j, str(j))
            ex.prove('at-yield/%s' % label, st.pc, ex.spec(cl, st, old=ex.entry, result=v), detail=cl if isinstance(cl, str) else 'callable')
        from .verify import check_frame
        from .spec import Contract
        check_frame(ex, Contract(c.qual + '#phase1', modifies=[]), st, tag='at-yield/frame/')
        st.env = dict(st.env)
        st.env['$yielded'] = v
        st.env['yielded'] = v          # ghost name for invariants and postconditions
        if getattr(ex, 'resume_state', None) is not None:
            raise OutOfSubset('yield reached on several paths (line %d)' % y.lineno)
        # suspension: the caller caches the value, constructs other nodes, and resumes the generator later
        from . import calls
        resume = Contract(c.qual + '#resume', modifies=c.resume_modifies, ensures=c.resume_ensures, trusted=True,
                          why='what may happen while a two-phase constructor is suspended (constructor protocol)')
        env = {k: val for k, val in st.env.items() if not k.startswith('$')}
        calls.apply_contract(ex, resume, None, None, [], {}, y, st, env=env)
        ex.resume_state = st.fork()
        return [Outcome('next', st)]

    def s_Assign(self, s, st):
        if isinstance(s.value, (ast.Yield, ast.YieldFrom)):
            raise OutOfSubset('yield expression')
        v = self.ex.ev(s.value, st)
        for t in s.targets:
            self.assign(t, v, st)
        return [Outcome('next', st)]

    def assign(self, t, v, st):
        ex = self.ex
        if isinstance(t, ast.Name):
            st.env[t.id] = v
            st.unbound.pop(t.id, None)
        elif isinstance(t, ast.Attribute):
            recv = ex.ev(t.value, st)
            ex.need_type(st, recv, is_r, 'setattr', t)
            ex.set_field(st, recv, t.attr, v, t)
        elif isinstance(t, (ast.Tuple, ast.List)):
            n = len(t.elts)
            if any(isinstance(x, ast.Starred) for x in t.elts):
                raise OutOfSubset('starred assignment')
            if v.ty not in ('list', 'tuple', 'seq'):
                isl = z3.And(is_r(v.t), z3.Or(typ(rv(v.t)) == 1, typ(rv(v.t)) == 3))
                ex.raise_if(st, z3.Not(isl), 'TypeError', 'safe/unpack-type', t)
            q = ex.seq_of(st, v)
            ex.raise_if(st, z3.Length(q) != n, 'ValueError', 'safe/unpack', t)
            for k, x in enumerate(t.elts):
                el = q[k]
                ex.assume_allocated(st, el)
                self.assign(x, Val(el, None), st)
        elif isinstance(t, ast.Subscript):
            base = ex.ev(t.value, st)
            if isinstance(t.slice, ast.Slice):
                raise OutOfSubset('slice assignment')
            idx = ex.ev(t.slice, st)
            self.setitem(base, idx, v, st, t)
        else:
            raise OutOfSubset('assignment target %s' % type(t).__name__)

    def setitem(self, base, idx, v, st, node):
        ex = self.ex
        if base.ty == 'dict':
            calls.used('dict.__setitem__')
            ex.raise_if(st, z3.Not(calls.hash_ok(idx.t)), 'TypeError', 'safe/hashable-key', node)
            ex.dict_set(st, base, idx, v)
            return
        if base.ty == 'list':
            calls.used('list.__setitem__')
            q = ex.seq_of(st, base)
            n = z3.Length(q)
            ex.need_type(st, idx, is_i, 'setitem', node)
            j = ex.index_norm(st, idx, n, 'IndexError', 'safe/setitem', node)
            ex.set_seq(st, base, z3.Concat(z3.Extract(q, 0, j), z3.Unit(v.t), z3.Extract(q, j + 1, n - j - 1)))
            return
        if base.ty is None:
            isd = z3.And(is_r(base.t), typ(rv(base.t)) == 2)
            ex.raise_if(st, z3.Not(isd), 'TypeError', 'safe/setitem-type', node)
            ex.dict_set(st, Val(base.t, 'dict'), idx, v)
            return
        raise OutOfSubset('item assignment on %s' % base.ty)

    def s_AugAssign(self, s, st):
        ex = self.ex
        t = s.target
        if isinstance(t, ast.Name):
            cur = ex.ev(ast.Name(t.id, ast.Load(), lineno=s.lineno, col_offset=0), st)
            v = ex.binop(s.op, cur, ex.ev(s.value, st), st, s)
            if cur.ty == 'list' and isinstance(s.op, ast.Add):
                raise OutOfSubset('list +=')
            st.env[t.id] = v
        elif isinstance(t, ast.Attribute):
            recv = ex.ev(t.value, st)
            cur = ex.get_field(st, recv, t.attr, t)
            if cur.ty == 'list' and isinstance(s.op, ast.Add):
                raise OutOfSubset('list +=')
            v = ex.binop(s.op, cur, ex.ev(s.value, st), st, s)
            ex.set_field(st, recv, t.attr, v, t)
        else:
            raise OutOfSubset('augmented assignment target')
        return [Outcome('next', st)]

    def s_Delete(self, s, st):
        ex = self.ex
        for t in s.targets:
            if isinstance(t, ast.Subscript) and not isinstance(t.slice, ast.Slice):
                base = ex.ev(t.value, st)
                idx = ex.ev(t.slice, st)
                if base.ty == 'dict':
                    has = z3.Select(z3.Select(ex.harr(st, '$dhas'), rv(base.t)), idx.t)
                    ex.raise_if(st, z3.Not(has), 'KeyError', 'safe/del-key', t)
                    calls.dict_del(ex, st, base, idx)
                elif base.ty == 'list':
                    q = ex.seq_of(st, base)
                    n = z3.Length(q)
                    j = ex.index_norm(st, idx, n, 'IndexError', 'safe/del-index', t)
                    ex.set_seq(st, base, z3.Concat(z3.Extract(q, 0, j), z3.Extract(q, j + 1, n - j - 1)))
                else:
                    raise OutOfSubset('del on %s' % base.ty)
            elif isinstance(t, ast.Name):
                st.env.pop(t.id, None)
            else:
                raise OutOfSubset('del target')
        return [Outcome('next', st)]

    def s_Return(self, s, st):
        v = self.ex.ev(s.value, st) if s.value is not None else Val(NONE, 'none')
        return [Outcome('return', st, val=v)]

    def s_Assert(self, s, st):
        c = self.ex.truthy(st, self.ex.ev(s.test, st))
        self.ex.raise_if(st, z3.Not(c), 'AssertionError', 'safe/assert', s)
        return [Outcome('next', st)]

    def s_Raise(self, s, st):
        ex = self.ex
        if s.exc is None:
            cur = st.env.get('$exc')
            return [Outcome('raise', st, exc=cur.ty if cur is not None else 'ANY', site='reraise@%d' % s.lineno)]
        name = None
        e = s.exc
        cal = e.func if isinstance(e, ast.Call) else e
        if isinstance(cal, ast.Name):
            if cal.id in st.env:
                v = st.env[cal.id]
                return [Outcome('raise', st, exc=v.ty if isinstance(v.ty, str) and not v.ty.startswith('obj:') else (v.ty[4:] if v.ty else 'ANY'), val=v, site='raise@%d' % s.lineno)]
            g = ex.repo.lookup(ex.f.module.name, cal.id)
            if isinstance(g, ClassInfo):
                name = g.qual
            else:
                name = cal.id
        else:
            name = ast.unparse(cal)
        val = None
        if isinstance(e, ast.Call):
            args = [ex.ev(a, st) for a in e.args]     # arguments are evaluated (may raise themselves)
            g = ex.repo.lookup(ex.f.module.name, cal.id) if isinstance(cal, ast.Name) else None
            if isinstance(g, ClassInfo):
                val = Val(ex.new_obj(st, g.qual), 'obj:' + g.qual)
                init = ex.repo.find_method(g, '__init__')
                if init is not None and calls.auto_inline_ok(init):
                    try:
                        calls.call_function(ex, init, val, args, calls.kwargs_of(e), e, st)
                    except OutOfSubset:
                        pass
        k, line = ex.site('raise', s)
        return [Outcome('raise', st, exc=name, val=val, site='%s@%d' % (k, line))]

    # ------------------------------------------------------------------ control flow
    def branch(self, test, st):
        """evaluate a condition by path splitting: returns [(state, truth)], exceptional forks go to ex.pending.
        `a and b` / `a or b` / `not a` are decided operand by operand (short circuit), so no state merging is needed"""
        ex = self.ex
        if isinstance(test, ast.BoolOp):
            is_and = isinstance(test.op, ast.And)
            out = []
            work = [(st, 0)]
            while work:
                s0, k = work.pop()
                for s1, t1 in self.branch(test.values[k], s0):
                    if t1 != is_and or k == len(test.values) - 1:
                        out.append((s1, t1))
                    else:
                        work.append((s1, k + 1))
            return out
        if isinstance(test, ast.UnaryOp) and isinstance(test.op, ast.Not):
            return [(s1, not t1) for s1, t1 in self.branch(test.operand, st)]
        c = z3.simplify(ex.truthy(st, ex.ev(test, st)))
        if z3.is_true(c):
            return [(st, True)]
        if z3.is_false(c):
            return [(st, False)]
        a = st.fork(); a.assume(c)
        b = st.fork(); b.assume(z3.Not(c))
        return [(a, True), (b, False)]

    def s_If(self, s, st):
        outs = []
        for s1, truth in self.branch(s.test, st):
            outs.extend(self.drain())
            outs.extend(self.block(s.body if truth else s.orelse, s1))
        return self.drain() + outs

    def s_Try(self, s, st):
        ex = self.ex
        outs = []
        body_outs = self.block(s.body, st)
        after = []
        for o in body_outs:
            if o.kind != 'raise':
                after.append(o)
                continue
            handled = False
            for h in s.handlers:
                names = self.handler_names(h)
                m = self.exc_match(o.exc, names)
                if m == 'no':
                    continue
                hst = o.st
                hst.env = dict(hst.env)
                if h.name:
                    hst.env[h.name] = o.val if o.val is not None else Val(fresh_v('exc'), 'obj:' + o.exc if '.' in (o.exc or '') else o.exc)
                hst.env['$exc'] = Val(NONE, o.exc)
                for ho in self.block(h.body, hst):
                    after.append(ho)
                handled = True
                if m == 'maybe':
                    # the unknown exception might also not match: it keeps propagating
                    after.append(Outcome('raise', o.st.fork(), exc=o.exc, val=o.val, site=o.site))
                break
            if not handled:
                after.append(o)
        if s.orelse:
            new = []
            for o in after:
                if o.kind == 'next':
                    new.extend(self.block(s.orelse, o.st))
                else:
                    new.append(o)
            after = new
        if s.finalbody:
            new = []
            for o in after:
                fouts = self.block(s.finalbody, o.st)
                for fo in fouts:
                    if fo.kind == 'next':
                        new.append(Outcome(o.kind, fo.st, val=o.val, exc=o.exc, site=o.site))
                    else:
                        new.append(fo)
            after = new
        # join multiple 'next' outcomes
        nxt = [o for o in after if o.kind == 'next']
        rest = [o for o in after if o.kind != 'next']
        if len(nxt) > 1:
            rest.append(Outcome('next', self.join_states(st, [o.st for o in nxt])))
        else:
            rest.extend(nxt)
        return rest

    def join_states(self, parent, states):
        """merge sibling states that all extend `parent.pc`-prefix (by length of common prefix)"""
        ex = self.ex
        base = 0
        first = states[0].pc
        for k in range(min(len(s.pc) for s in states)):
            if all(s.pc[k] is first[k] or s.pc[k].eq(first[k]) for s in states):
                base = k + 1
            else:
                break
        acc = states[-1]
        conds = []
        defs = []
        for s in states:
            full = z3.And(*s.pc[base:]) if len(s.pc) > base else z3.BoolVal(True)
            # name the path condition: the ites of the merged state mention a Boolean constant, not the whole formula
            j = z3.Bool(fresh_name('path'))
            defs.append(j == full)
            conds.append(j)
        for s, c in zip(reversed(states[:-1]), reversed(conds[:-1])):
            m = State()
            m.pc = list(first[:base]); m.env = {}; m.heap = {}; m.alloc = s.alloc
            a = s.fork(); a.pc = list(first[:base]) + s.pc[base:]
            b = acc.fork(); b.pc = list(first[:base]) + acc.pc[base:]
            m.env = dict(a.env); m.heap = dict(a.heap)
            ex.merge_into(m, c, a, b)
            acc = m
        acc.pc = list(first[:base]) + defs + [z3.Or(*conds)] + acc.pc[base:]
        return acc

    def handler_names(self, h):
        if h.type is None:
            return ['BaseException']
        ts = h.type.elts if isinstance(h.type, ast.Tuple) else [h.type]
        out = []
        for t in ts:
            if isinstance(t, ast.Name):
                g = self.ex.repo.lookup(self.ex.f.module.name, t.id)
                out.append(g.qual if isinstance(g, ClassInfo) else t.id)
            else:
                out.append(ast.unparse(t))
        return out

    def exc_match(self, exc, names):
        w = self.ex.w
        if exc == 'ANY':
            return 'yes' if any(n in ('BaseException', 'Exception') for n in names) else 'maybe'
        for n in names:
            if w.exc_is_sub(exc, n):
                return 'yes'
        return 'no'

    def s_Break(self, s, st):
        return [Outcome('break', st)]

    def s_Continue(self, s, st):
        return [Outcome('continue', st)]

    # ------------------------------------------------------------------ loops
    def loop_writes(self, body):
        """syntactic write set of a loop body: locals, (field, receiver-src) pairs, container receivers, callee names"""
        locs, flds, conts, callees = set(), set(), set(), []
        for n in ast.walk(ast.Module(body=body, type_ignores=[])):
            if isinstance(n, ast.Name) and isinstance(n.ctx, (ast.Store, ast.Del)):
                locs.add(n.id)
            elif isinstance(n, ast.Attribute) and isinstance(n.ctx, ast.Store):
                flds.add((n.attr, ast.unparse(n.value)))
            elif isinstance(n, ast.Subscript) and isinstance(n.ctx, (ast.Store, ast.Del)):
                conts.add(ast.unparse(n.value))
            elif isinstance(n, ast.For) and len(n.body) == 1 and isinstance(n.body[0], ast.Pass) and ('exhaust', self.ex.f.qual) in REG.externs:
                callees.append(n)
            elif isinstance(n, ast.Call):
                callees.append(n)
                f = n.func
                if isinstance(f, ast.Attribute) and f.attr in ('append', 'extend', 'pop', 'insert', 'reverse', 'sort', 'clear',
                                                               'update', 'setdefault', 'add', 'remove', 'discard'):
                    conts.add(ast.unparse(f.value))
        return locs, flds, conts, callees

    def havoc_loop(self, st, body, ordinal):
        ex = self.ex
        locs, flds, conts, callees = self.loop_writes(body)
        auto = []       # automatic type invariants: (name, ty)
        for n in sorted(locs):
            if n in st.env:
                old = st.env[n]
                nv = Val(fresh_v(n), old.ty if old.ty not in ('list', 'dict', 'tuple', 'set', 'seq', None) and not isinstance(old.ty, ClassInfo) else old.ty)
                if old.ty == 'none':
                    # a local that starts as None usually becomes something else: no automatic type invariant
                    nv = Val(nv.t, None)
                elif old.ty is not None and isinstance(old.ty, str):
                    if old.ty == 'char':
                        nv = Val(nv.t, 'str')
                    p = ex.type_pred(nv.ty, nv.t, st) if nv.ty != 'seq' else None
                    if p is not None:
                        st.assume(p)
                        auto.append((n, nv.ty))
                    else:
                        nv = Val(nv.t, None)
                st.env[n] = nv
                ex.assume_allocated(st, nv.t)
        # heap writes: direct stores
        writes = []   # (key, ref or None)
        assigned_fields = {f for f, _ in flds}
        def stable_node(t):
            if isinstance(t, ast.Name):
                return t.id not in locs and t.id in st.env
            if isinstance(t, ast.Attribute):
                return stable_node(t.value) and t.attr not in assigned_fields and not self._callee_may_write(callees, t.attr)
            return False

        def stable(src):
            # receiver expression unchanged by the loop: a local not assigned in the loop, or a chain of fields none of which the
            # loop (or a callee, by its modifies clause) assigns
            try:
                t = ast.parse(src, mode='eval').body
            except Exception:
                return False
            return stable_node(t)
        for f, src in sorted(flds):
            if stable(src):
                v = ex.ev(ast.parse(src, mode='eval').body, st)
                writes.append(('f:' + f, rv(v.t)))
            else:
                writes.append(('f:' + f, None))
        for src in sorted(conts):
            if stable(src):
                v = ex.ev(ast.parse(src, mode='eval').body, st)
                for key in ('$seq', '$dhas', '$dval', '$dkeys'):
                    writes.append((key, rv(v.t)))
            else:
                for key in ('$seq', '$dhas', '$dval', '$dkeys'):
                    writes.append((key, None))
        # callee frames
        extra = ex.c.loop_frames.get(ordinal)
        for cn in callees:
            for key, ref in self._callee_frame(cn, st, locs, stable):
                writes.append((key, ref))
        if extra:
            view = State(); view.env = st.env; view.heap, view.pc, view.alloc = st.heap, st.pc, st.alloc
            writes.extend(calls.modifies_points(ex, extra, view, st))
        done_whole = set()
        for key, ref in writes:
            if ref is None:
                done_whole.add(key)
        self.loop_frames = getattr(self, 'loop_frames', {})
        checks = []
        if done_whole and ex.entry is not None and not ex.spec_mode:
            entry = ex.entry
            eview = State(); eview.env = entry.env; eview.heap = dict(entry.heap); eview.pc = list(entry.pc); eview.alloc = entry.alloc
            fpts = calls.modifies_points(ex, ex.c.modifies, eview, entry)
        for key in sorted(done_whole):
            arr = ex.harr(st, key)
            L = z3.Const(fresh_name('L_' + key.replace('$', 'S_').replace(':', '_')), arr.sort())
            if ex.entry is not None and not any(k == key and r is None for k, r in fpts):
                # objects that existed when the function was entered and that the function may not modify keep their contents:
                # assumed for the arbitrary iteration, proved at loop entry and at the end of every iteration
                a0 = ex.entry.heap.get(key)
                if a0 is None:
                    a0 = ex.harr(ex.entry, key)
                allowed = [r for k, r in fpts if k == key]
                o = z3.Int(fresh_name('fo'))
                hyp = z3.And(o < ex.entry.alloc, *[o != r for r in allowed])
                name, _ = ex.site('loop-frame/%d/%s' % (ordinal, key.replace('f:', '')))
                osk = z3.Int(fresh_name('o'))
                ex.prove(name + '/init', list(st.pc) + [osk < ex.entry.alloc] + [osk != r for r in allowed], z3.Select(arr, osk) == z3.Select(a0, osk),
                         detail='loop %d: objects outside the function frame are unchanged at loop entry' % ordinal)
                st.assume(z3.ForAll([o], z3.Implies(hyp, z3.Select(L, o) == z3.Select(a0, o)), patterns=[z3.Select(L, o)]))
                checks.append((key, a0, allowed, name))
            st.heap[key] = L
        self.loop_frames[ordinal] = checks
        for key, ref in writes:
            if ref is not None and key not in done_whole:
                arr = ex.harr(st, key)
                st.heap[key] = z3.Store(arr, ref, z3.Const(fresh_name('lv'), arr.sort().range()))
        if callees:
            na = z3.Int(fresh_name('alloc'))
            st.assume(na >= st.alloc)
            st.alloc = na
        elif any(isinstance(n, (ast.List, ast.Tuple, ast.Dict, ast.BinOp, ast.Subscript)) for n in ast.walk(ast.Module(body=body, type_ignores=[]))):
            na = z3.Int(fresh_name('alloc'))
            st.assume(na >= st.alloc)
            st.alloc = na
        return auto

    def check_loop_frame(self, ordinal, st):
        ex = self.ex
        for key, a0, allowed, name in getattr(self, 'loop_frames', {}).get(ordinal, []):
            arr = st.heap.get(key)
            if arr is None:
                continue
            osk = z3.Int(fresh_name('o'))
            ex.prove(name + '/preserved', list(st.pc) + [osk < ex.entry.alloc] + [osk != r for r in allowed], z3.Select(arr, osk) == z3.Select(a0, osk),
                     detail='loop %d: an iteration writes only what the function may modify or what it allocated itself' % ordinal)

    def _callee_may_write(self, callees, field):
        for cn in callees:
            c = self._callee_contract(cn)
            if c is None:
                continue
            for m in c.modifies:
                if m.strip().endswith('.' + field):
                    return True
        return False

    PURE_NAMES = {'len', 'isinstance', 'int', 'str', 'ord', 'chr', 'bool', 'hasattr', 'getattr', 'max', 'min', 'list', 'tuple', 'dict',
                  'repr', 'id', 'type', 'range', 'sorted', 'bytes', 'float', 'set', 'abs', 'hash', 'callable', 'issubclass'}
    PURE_METHODS = {'append', 'extend', 'pop', 'insert', 'reverse', 'sort', 'clear', 'update', 'setdefault', 'add', 'remove', 'discard',
                    'get', 'copy', 'keys', 'values', 'items', 'index', 'count', 'startswith', 'endswith', 'lower', 'upper', 'strip', 'lstrip',
                    'rstrip', 'replace', 'join', 'encode', 'decode', 'split', 'isdigit', 'isalpha', 'isalnum', 'isspace', 'find', 'rsplit',
                    'ljust', 'format', 'title', 'capitalize'}

    def _callee_contract(self, cn):
        """the contract that accounts for the effects of call node `cn` inside a loop; None = no heap effect beyond the
        container mutations loop_writes already sees; raises OutOfSubset when the callee is unknown"""
        ex = self.ex
        if isinstance(cn, ast.For):
            return REG.externs[('exhaust', ex.f.qual)]
        f = cn.func
        if isinstance(f, ast.Attribute) and isinstance(f.value, ast.Name) and f.value.id == 'self' and ex.ctx is not None:
            m = ex.repo.find_method(ex.ctx, f.attr)
            if m is not None:
                return REG.contracts.get(m.qual)
            if ('value-call', ex.f.qual) in REG.externs:
                return REG.externs[('value-call', ex.f.qual)]
            raise OutOfSubset('loop calls self.%s (a field holding a callable) without an assumed contract' % f.attr)
        if isinstance(f, ast.Name):
            n = f.id
            if n == 'next' and ('next', ex.f.qual) in REG.externs:
                return REG.externs[('next', ex.f.qual)]
            if n in SPEC_PURE or n in self.PURE_NAMES:
                return None
            g = ex.repo.lookup(ex.f.module.name, n)
            if isinstance(g, FuncInfo):
                c = REG.contracts.get(g.qual)
                if c is None and not calls.auto_inline_ok(g):
                    raise OutOfSubset('loop calls %s which has no contract' % g.qual)
                return c
            if isinstance(g, ClassInfo):
                init = ex.repo.find_method(g, '__init__')
                return REG.contracts.get(init.qual) if init is not None else None
            if ('value-call', ex.f.qual) in REG.externs:
                return REG.externs[('value-call', ex.f.qual)]
            raise OutOfSubset('loop calls the computed callable %s without an assumed contract' % n)
        if isinstance(f, ast.Attribute):
            if isinstance(f.value, ast.Name):
                g = ex.repo.lookup(ex.f.module.name, f.value.id) if f.value.id not in ('self',) else None
                if isinstance(g, tuple) and g[0] == 'module':
                    return REG.externs.get(('extern', '%s.%s' % (g[1], f.attr)))
                if isinstance(g, ClassInfo):
                    m = ex.repo.find_method(g, f.attr)
                    if m is not None:
                        return REG.contracts.get(m.qual)
            for (ty, name), c in REG.externs.items():
                if name == f.attr and ty not in ('extern', 'value-call', 'next', 'exhaust', 'value'):
                    return c
            if f.attr in self.PURE_METHODS:
                return None
            raise OutOfSubset('loop calls .%s on a computed receiver without a contract' % f.attr)
        raise OutOfSubset('loop contains a call of unknown form')

    def _callee_frame(self, cn, st, locs, stable=lambda src: False):
        ex = self.ex
        f = cn.func if isinstance(cn, ast.Call) else None
        out = []
        c = self._callee_contract(cn)
        if c is None:
            if isinstance(f, ast.Attribute) and isinstance(f.value, ast.Name) and f.value.id == 'self' and ex.ctx is not None:
                m = ex.repo.find_method(ex.ctx, f.attr)
                if m is not None and REG.contracts.get(m.qual) is None:
                    # inlined helper: its direct stores
                    l2, f2, c2, cc2 = self.loop_writes(m.node.body)
                    for fld, src in f2:
                        out.append(('f:' + fld, rv(st.env['self'].t) if src == 'self' and 'self' in st.env else None))
                    for src in c2:
                        for key in ('$seq', '$dhas', '$dval', '$dkeys'):
                            out.append((key, None))
            return out
        recv_ok = 'self' in st.env
        mods = list(c.modifies)
        if isinstance(f, ast.Attribute) and c in [v for (k0, _), v in REG.externs.items() if k0 not in ('extern', 'value-call', 'next', 'exhaust', 'value')]:
            # a method of a typed receiver (stream.write, ...): `self` in its clauses is the receiver expression
            src = ast.unparse(f.value)
            mods = [(src + m.strip()[4:]) if m.strip().startswith('self.') or m.strip() == 'self' else m for m in mods]
        for m in mods:
            m = m.strip()
            if m.startswith('self.') and recv_ok and m.count('.') == 1 and not m.endswith('[]'):
                out.append(('f:' + m[5:], rv(st.env['self'].t)))
            elif m.endswith('[]'):
                ref = None
                if recv_ok and stable(m[:-2]):
                    ref = rv(ex.ev(ast.parse(m[:-2], mode='eval').body, st).t)
                for key in ('$seq', '$dhas', '$dval', '$dkeys'):
                    out.append((key, ref))
            elif m.startswith('*.'):
                out.append(('f:' + m[2:], None))
            elif m.startswith('$'):
                out.append((m, None))
            else:
                base, _, fld = m.rpartition('.')
                out.append(('f:' + fld, None))
        return out

    def inv_spec(self, pre_loop, inv, st, ghost=None):
        """evaluate a loop invariant; before_loop(e) inside it denotes e in the state just before the loop was entered"""
        ex = self.ex
        saved = getattr(ex, 'loop_pre_state', None)
        ex.loop_pre_state = pre_loop
        try:
            return ex.spec(inv, st, old=getattr(ex, 'resume_state', None) or ex.entry, ghost=ghost)
        finally:
            ex.loop_pre_state = saved

    def s_While(self, s, st):
        ex = self.ex
        if ex.inline_depth:
            raise OutOfSubset('loop in an inlined callee')
        k = ex.loop_ordinal_of(s)
        invs = ex.c.invariants.get(k, []) if ex.inline_depth == 0 else []
        variant = ex.c.variants.get(k) if ex.inline_depth == 0 else None
        if ex.inline_depth:
            raise OutOfSubset('loop in an inlined callee')
        pre_loop = st.fork()
        # 1. invariant holds on entry
        for j, inv in enumerate(invs):
            ex.prove('inv-init/%d/%d' % (k, j), st.pc, self.inv_spec(pre_loop, inv, st), detail='loop %d line %d: %s' % (k, s.lineno, inv if isinstance(inv, str) else 'callable'))
        # 2. arbitrary iteration
        auto = self.havoc_loop(st, s.body + [ast.Expr(s.test)], k)
        for inv in invs:
            st.assume(self.inv_spec(pre_loop, inv, st))
        head = st.fork()
        c = ex.truthy(st, ex.ev(s.test, st))
        outs = self.drain()
        body_st = st.fork(); body_st.assume(c)
        exit_st = st.fork(); exit_st.assume(z3.Not(c))
        v0 = ex.spec_val(variant, body_st, old=getattr(ex, 'resume_state', None) or ex.entry) if variant else None
        if k not in ex.c.dead_loops:
            ex.prove('cover/loop-body/%d' % k, body_st.pc, z3.BoolVal(False), kind='cover', detail='loop %d body reachable' % k)
        bouts = self.block(s.body, body_st)
        after_break = []
        for o in bouts:
            if o.kind in ('next', 'continue'):
                for j, inv in enumerate(invs):
                    ex.prove('inv-preserved/%d/%d' % (k, j), o.st.pc, self.inv_spec(pre_loop, inv, o.st), detail='loop %d line %d: %s' % (k, s.lineno, inv if isinstance(inv, str) else 'callable'))
                for n, ty in auto:
                    if n in o.st.env:
                        ex.prove('inv-preserved/%d/type-%s' % (k, n), o.st.pc, ex.type_pred(ty, o.st.env[n].t, o.st), detail='local %s keeps type %s' % (n, ty))
                self.check_loop_frame(k, o.st)
                if v0 is not None:
                    v1 = ex.spec_val(variant, o.st, old=getattr(ex, 'resume_state', None) or ex.entry)
                    ex.prove('variant/%d' % k, o.st.pc, z3.And(iv(v0.t) >= 0, iv(v1.t) < iv(v0.t)), detail='loop %d variant %s' % (k, variant))
            elif o.kind == 'break':
                after_break.append(o.st)
            else:
                outs.append(o)
        # 3. exit
        exits = []
        if s.orelse:
            for o in self.block(s.orelse, exit_st):
                if o.kind == 'next':
                    exits.append(o.st)
                else:
                    outs.append(o)
        else:
            exits.append(exit_st)
        exits.extend(after_break)
        if len(exits) == 1:
            outs.append(Outcome('next', exits[0]))
        elif exits:
            outs.append(Outcome('next', self.join_states(head, exits)))
        return outs

    def s_For(self, s, st):
        ex = self.ex
        if len(s.body) == 1 and isinstance(s.body[0], ast.Pass) and not s.orelse and ('exhaust', ex.f.qual) in REG.externs:
            # `for dummy in generator: pass` -- run a generator to exhaustion: its assumed protocol contract applies
            g = ex.ev(s.iter, st)
            outs = self.drain()
            isgen = z3.And(is_r(g.t), typ(rv(g.t)) == ex.w.class_id('types.GeneratorType'))
            name, line = ex.site('safe/iter-generator', s)
            ex.raise_if(st, z3.Not(isgen), 'TypeError', 'safe/iter-generator', s)
            calls.apply_contract(ex, REG.externs[('exhaust', ex.f.qual)], None, st.env.get('self'), [], {}, s, st, pnames=None, extra_env={'callee': g})
            return outs + self.drain() + [Outcome('next', st)]
        if ex.inline_depth:
            raise OutOfSubset('loop in an inlined callee')
        k = ex.loop_ordinal_of(s)
        invs = ex.c.invariants.get(k, [])
        it = s.iter
        rng = None
        if isinstance(it, ast.Call) and isinstance(it.func, ast.Name) and it.func.id == 'range' and len(it.args) == 1:
            n = ex.ev(it.args[0], st)
            ex.need_type(st, n, is_i, 'range', it)
            rng = iv(n.t)
            length = z3.If(rng > 0, rng, 0)
            elem = lambda i: Val(mk_i(i), 'int')
        else:
            seqv = ex.ev(it, st)
            dict_ref = None
            if seqv.ty in ('list', 'tuple'):
                q = ex.seq_of(st, seqv)
            elif seqv.ty in ('dict', 'set'):
                q = z3.Select(ex.harr(st, '$dkeys'), rv(seqv.t))
                dict_ref = rv(seqv.t)
            elif seqv.ty in ('str', 'char', 'bytes'):
                q = None
            elif seqv.ty is None:
                isl = z3.And(is_r(seqv.t), z3.Or(typ(rv(seqv.t)) == 1, typ(rv(seqv.t)) == 3))
                isd = z3.And(is_r(seqv.t), z3.Or(typ(rv(seqv.t)) == 2, typ(rv(seqv.t)) == 4))
                ex.raise_if(st, z3.Not(z3.Or(isl, isd)), 'TypeError', 'safe/iter-type', it)
                q = z3.If(isl, ex.seq_of(st, seqv.t), z3.Select(ex.harr(st, '$dkeys'), rv(seqv.t)))
            else:
                raise OutOfSubset('for over %s' % seqv.ty)
            if q is None:
                # iteration over a str yields its characters, over bytes its byte values
                sx = sv(seqv.t) if seqv.ty != 'bytes' else yv(seqv.t)
                length = z3.Length(sx)
                if seqv.ty == 'bytes':
                    elem = lambda i: Val(mk_i(z3.StrToCode(z3.SubString(sx, i, 1))), 'int')
                else:
                    elem = lambda i: Val(mk_s(z3.SubString(sx, i, 1)), 'char')
                q = z3.Empty(SeqV)
            else:
                # the sequence that is iterated is the value of this term before the loop (a snapshot: z3 terms are immutable)
                length = z3.Length(q)
                elem = lambda i: Val(q[i], None)
        outs = self.drain()
        ki = z3.Int(fresh_name('loop_i'))
        gh = {'loop_i': Val(mk_i(ki), 'int'), 'loop_seq': Val(q if rng is None else z3.Empty(SeqV), 'seq')}
        st0 = st.fork()
        pre_loop = st0
        for j, inv in enumerate(invs):
            st_i = st.fork(); st_i.assume(ki == 0)
            ex.prove('inv-init/%d/%d' % (k, j), st_i.pc, self.inv_spec(pre_loop, inv, st_i, gh), detail='loop %d line %d: %s' % (k, s.lineno, inv))
        auto = self.havoc_loop(st, s.body + [ast.Assign([s.target], ast.Constant(None), lineno=s.lineno)], k)
        tnames = {n.id for n in ast.walk(s.target) if isinstance(n, ast.Name)}
        auto = [(n, ty) for n, ty in auto if n not in tnames]      # the loop variable is rebound by the loop itself
        st.assume(z3.And(ki >= 0, ki <= length))
        for inv in invs:
            st.assume(self.inv_spec(pre_loop, inv, st, gh))
        head = st.fork()
        body_st = st.fork(); body_st.assume(ki < length)
        exit_st = st.fork(); exit_st.assume(ki == length)
        el = elem(ki)
        ex.assume_allocated(body_st, el.t)
        if rng is None and dict_ref is not None:
            # the order sequence of a dict lists exactly its keys (mutating a dict while iterating it is a RuntimeError in CPython)
            body_st.assume(z3.Select(z3.Select(ex.harr(body_st, '$dhas'), dict_ref), el.t))
            body_st.assume(calls.hash_ok(el.t))       # a key of a dict was hashed when it was inserted
        self.assign(s.target, el, body_st)
        outs += self.drain()
        if k not in ex.c.dead_loops:
            ex.prove('cover/loop-body/%d' % k, body_st.pc, z3.BoolVal(False), kind='cover', detail='loop %d body reachable' % k)
        bouts = self.block(s.body, body_st)
        after_break = []
        gh2 = dict(gh); gh2['loop_i'] = Val(mk_i(ki + 1), 'int')
        for o in bouts:
            if o.kind in ('next', 'continue'):
                for j, inv in enumerate(invs):
                    ex.prove('inv-preserved/%d/%d' % (k, j), o.st.pc, self.inv_spec(pre_loop, inv, o.st, gh2), detail='loop %d line %d: %s' % (k, s.lineno, inv))
                for n, ty in auto:
                    if n in o.st.env:
                        ex.prove('inv-preserved/%d/type-%s' % (k, n), o.st.pc, ex.type_pred(ty, o.st.env[n].t, o.st), detail='local %s keeps type %s' % (n, ty))
                self.check_loop_frame(k, o.st)
            elif o.kind == 'break':
                after_break.append(o.st)
            else:
                outs.append(o)
        exits = []
        if s.orelse:
            for o in self.block(s.orelse, exit_st):
                if o.kind == 'next':
                    exits.append(o.st)
                else:
                    outs.append(o)
        else:
            exits.append(exit_st)
        exits.extend(after_break)
        if len(exits) == 1:
            outs.append(Outcome('next', exits[0]))
        elif exits:
            outs.append(Outcome('next', self.join_states(head, exits)))
        return outs
